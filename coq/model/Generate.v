(* Generate.v — mirrors src/generate.rs: configure_build (per builder/app pair) and the
   Generator's selection / ordered union of statement sets. Definitions only.
   Panic sites are numbered; they are the unwrap/expect/panic! calls of the code that the
   model's own data can reach (see proofs and DESIGN.md, C15). *)
From Coq Require Import Ascii String.
From Coq Require Import List Arith Bool NArith.
Import ListNotations.
Require Import Laze.model.Base Laze.model.Env Laze.model.Expand Laze.model.Path Laze.model.Hash
        Laze.model.Allow Laze.model.Ninja Laze.model.Ctx Laze.model.Resolver Laze.model.Imports.
Open Scope list_scope.

(* ---------- solvent::DepGraph (deterministic feature): nodes by name ---------- *)
Record depgraph := { g_nodes : list str; g_deps : list (str * list str) }.
Definition g_empty : depgraph := {| g_nodes := []; g_deps := [] |}.
Definition g_register_node (g : depgraph) (n : str) : depgraph :=
  {| g_nodes := iset_insert n (g_nodes g); g_deps := g_deps g |}.
Definition g_register_dependency (g : depgraph) (node dep : str) : depgraph :=
  let g1 := g_register_node (g_register_node g node) dep in
  {| g_nodes := g_nodes g1;
     g_deps := ainsert node (iset_insert dep (odflt [] (alookup node (g_deps g1)))) (g_deps g1) |}.

(* get_next_dependency: follow the first unsatisfied dependency; None = cycle *)
Fixpoint g_next (fuel : nat) (g : depgraph) (satisfied curpath : list str) (pos : str) : option str :=
  match fuel with
  | O => None
  | S f =>
      if mem_str pos curpath then None
      else match alookup pos (g_deps g) with
           | None => Some pos
           | Some deplist =>
               match find (fun n => negb (mem_str n satisfied)) deplist with
               | Some n => g_next f g satisfied (pos :: curpath) n
               | None => Some pos
               end
           end
  end.

(* the iterator: Some order, or None on a cycle *)
Fixpoint g_walk (fuel : nat) (g : depgraph) (target : str) (satisfied acc : list str) : option (list str) :=
  match fuel with
  | O => None
  | S f =>
      if mem_str target satisfied then Some (rev acc)
      else match g_next (S (length (g_nodes g))) g satisfied [] target with
           | None => None
           | Some n => g_walk f g target (n :: satisfied) (n :: acc)
           end
  end.
Definition dependencies_of (g : depgraph) (target : str) : option (list str) :=
  g_walk (S (S (length (g_nodes g)))) g target [] [].

(* ---------- configure_build ---------- *)
Record lazeenv := { le_build_dir : str; le_project_root : str; le_laze_bin : str }.

Definition base_env (le : lazeenv) : env :=          (* generate.rs:159-175 *)
  fold_left (fun e kv => env_insert (fst kv) (Single (snd kv)) e)
    [(S_ "in", S_ "\${in}"); (S_ "out", S_ "\${out}"); (S_ "build-dir", le_build_dir le);
     (S_ "outfile", S_ "${bindir}/${app}.elf"); (S_ "project-root", le_project_root le);
     (S_ "root", S_ "."); (S_ "LAZE_BIN", le_laze_bin le)] [].

(* relroot(), generate.rs:77-97 *)
Definition relroot (relpath : str) : str :=
  let comps := components relpath in
  let n := length comps in
  let n := match comps with c :: _ => if str_eqb c [ch_dot] then n - 1 else n | [] => n end in
  if Nat.eqb n 0 || path_eq relpath [ch_dot] then S_ "${root}"
  else intercalate [ch_slash] (repeat (S_ "..") n).

Inductive taskerr := RequiredVarMissing (v : str) | RequiredModuleMissing (m : str).

Record build_info := {
  bi_binary : str; bi_builder : str; bi_out : str;
  bi_tasks : list (str * (task + taskerr));
  bi_modules : list str;            (* selection order (resolver) *)
  bi_build_order : list str }.      (* build order (info-export order) *)

Inductive nobuild := NotAllowed | NotAncestor | Shadowed | Unresolved | BuildDepCycle.
Inductive cfg_result := Built (info : build_info) (entries : list stmt) | NoBuild (why : nobuild).

Definition rule_to_nrule (r : rule) : nrule :=               (* From<&Rule> for NinjaRuleBuilder *)
  {| nr_name := r_name r; nr_command := r_cmd r;
     nr_description := Some (match r_description r with Some d => d | None => r_name r end);
     nr_export := r_export r; nr_deps := r_gcc_deps r; nr_rspfile := r_rspfile r;
     nr_rspfile_content := r_rspfile_content r; nr_pool := r_pool r; nr_always := r_always r |}.

(* the build's global env, generate.rs:436-486: built-ins, the builder's (inherited) context env
   with builder/app inserted, the selected modules' global envs in reverse selection order, the
   reserved variables (inserted, i.e. replacing), then the -D assignments *)
Definition build_context_env (bctx : context) (binary : module) : env :=
  env_insert (S_ "app") (Single (m_name binary))
    (env_insert (S_ "builder") (Single (c_name bctx)) (odflt [] (c_env bctx))).

Definition reserved_env (b : bag) (builder : nat) (ms : list module) (relpath : str) (e : env) : env :=
  let names := map m_name ms in
  let used_contexts := map c_name (ctxs_of b (chain b builder)) in
  let used_modules := filter (fun n => negb (is_prefix (S_ "context::") n)) names in
  env_insert (S_ "contexts") (EList used_contexts)
    (env_insert (S_ "modules") (EList used_modules)
       (env_insert (S_ "relroot") (Single (relroot relpath))
          (env_insert (S_ "relpath") (Single relpath) e))).

Definition global_env (b : bag) (le : lazeenv) (builder : nat) (bctx : context) (binary : module)
           (ms : list module) (relpath : str) (cli_env : option env) : env :=
  let g0 := merge (base_env le) (build_context_env bctx binary) in
  let g1 := fold_left (fun e m => merge e (m_env_global m)) (rev ms) g0 in
  let g2 := reserved_env b builder ms relpath g1 in
  match cli_env with Some ce => merge g2 ce | None => g2 end.

(* the object file of a source, generate.rs:866-884: shareable rules put the hash of
   (named rule) xor (order-only deps) into the extension; non-shareable rules use a directory
   private to builder and app *)
Definition object_ext (shareable : bool) (h : N) (rout : str) : str :=
  if shareable then show_dec h ++ ch_dot :: rout else rout.
(* out.strip_prefix("/"): an absolute source path is made relative, so that pushing it keeps the
   object directory and the builder/app directories of non-shareable objects (fix for absolute
   srcdir; the code before pushed the absolute path, which replaces everything pushed so far) *)
Definition rel_root (p : str) : str :=
  if is_absolute p then match strip_prefix p [ch_slash] with Some r => r | None => p end else p.

Definition object_path (objdir builder_name binary_name : str) (shareable : bool) (srcpath : str)
           (h : N) (rout : str) : str :=
  path_push (if shareable then objdir else path_push (path_push objdir builder_name) binary_name)
            (rel_root (with_extension srcpath (object_ext shareable h rout))).

Section Gen.
  Variable H : list ascii -> N.              (* DefaultHasher *)
  Variable EV : str -> evr.           (* evalexpr *)

  Definition to_ninja (env : fenv) (r : rule) : res nrule :=       (* Rule::to_ninja *)
    rmap (named H) (rule_expand EV env (rule_to_nrule r)).

  Definition unwrap_expand (site : N) (x : res str) : res str := unwrap_res site x.

  Definition opt_unwrap {A} (site : N) (o : option A) : res A :=
    match o with Some a => Ok a | None => Panic site end.

  (* per-build mutable state of the module loop *)
  Record loopst := {
    ls_entries : list stmt;                        (* ninja_entries: IndexSet<String> *)
    ls_objects : list str;
    ls_depfiles : list (str * list str);           (* module_build_dep_files *)
    ls_dldirs : list (str * str) }.                (* download_dirs: srcdir of a downloading module -> its tag file *)

  Definition add_entry (s : stmt) (st : loopst) : loopst :=
    {| ls_entries := sset_insert s (ls_entries st); ls_objects := ls_objects st; ls_depfiles := ls_depfiles st;
       ls_dldirs := ls_dldirs st |}.
  Definition add_object (o : str) (st : loopst) : loopst :=
    {| ls_entries := ls_entries st; ls_objects := ls_objects st ++ [o]; ls_depfiles := ls_depfiles st;
       ls_dldirs := ls_dldirs st |}.
  Definition add_depfiles (name : str) (files : list str) (st : loopst) : loopst :=
    {| ls_entries := ls_entries st; ls_objects := ls_objects st;
       ls_depfiles := ainsert name (iset_union (odflt [] (alookup name (ls_depfiles st))) files) (ls_depfiles st);
       ls_dldirs := ls_dldirs st |}.
  Definition add_dldir (srcdir tagfile : str) (st : loopst) : loopst :=
    {| ls_entries := ls_entries st; ls_objects := ls_objects st; ls_depfiles := ls_depfiles st;
       ls_dldirs := ainsert srcdir tagfile (ls_dldirs st) |}.
  (* ContainingPath::get_containing_path: the entry for the path itself, else the first whose key is a prefix *)
  Definition containing_path (dirs : list (str * str)) (p : str) : option str :=
    match find (fun kv => path_eq (fst kv) p) dirs with
    | Some kv => Some (snd kv)
    | None => option_map snd (find (fun kv => path_starts_with p (fst kv)) dirs)
    end.

  (* sources_optional whose guard is selected, in map order *)
  Definition optional_sources (m : module) (ms : list module) : list str :=
    match m_sources_optional m with
    | Some l => flat_map (fun kv => match find_sel (fst kv) ms with Some _ => snd kv | None => [] end) l
    | None => []
    end.

  Definition all_sources (m : module) (ms : list module) : list str := m_sources m ++ optional_sources m ms.

  Definition e_missing_ext := EOther (S_ "missing-extension").
  Definition e_no_rule := EOther (S_ "no-rule").
  Definition e_missing_link := EOther (S_ "missing-link-rule").
  Definition e_postlink_out := EOther (S_ "postlink-no-out").

  Definition e_rule_no_out := EOther (S_ "rule-no-out").

  (* one source of a module using the default rules, generate.rs:851-917 *)
  Definition compile_source (rules : list (str * rule)) (module_rules : list (str * nrule))
             (flat : fenv) (objdir builder_name binary_name srcdir : str)
             (combined : option (list str)) (deps_hash : N) (local_deps : option (list str))
             (src_tagfile : option str) (st : loopst) (source : str) : res loopst :=
    rbind (expand_eval EV flat PEmpty (path_push srcdir source)) (fun srcpath =>
    rbind (match extension srcpath with
           | Some ext => match alookup ext rules, alookup ext module_rules with
                         | Some r, Some nr => Ok (r, nr)
                         | _, _ => Err e_no_rule end
           | None => Err e_no_rule end) (fun '(rule, nrule) =>
    rbind (match r_out rule with Some o => Ok o | None => Err e_rule_no_out end) (fun rout =>
    let object := object_path objdir builder_name binary_name (r_shareable rule) srcpath
                              (N.lxor (rule_hash H nrule) deps_hash) rout in
    let b := {| nb_rule := nr_name nrule; nb_inputs := Some [srcpath]; nb_outs := [object];
                nb_deps := option_map sort_paths combined; nb_env := None; nb_always := nr_always nrule |} in
    let st1 := add_object object (add_entry (SBuild b) st) in
    Ok (match local_deps with
        | Some ld => add_entry (SBuild {| nb_rule := S_ "phony"; nb_inputs := None; nb_outs := [srcpath];
                                          nb_deps := Some (sort_paths ld); nb_env := None;
                                          nb_always := false |}) st1
        | None =>
            (* a source that lives in another module's download directory waits for that download *)
            match src_tagfile with
            | Some tf => add_entry (SBuild {| nb_rule := S_ "phony"; nb_inputs := Some [tf]; nb_outs := [srcpath];
                                              nb_deps := None; nb_env := None; nb_always := false |}) st1
            | None => st1
            end
        end)))).

  (* the download directories of all modules of a build with their tag files, collected before the module
     loop (after fix: independent of the order in which the modules are visited) *)
  Definition dldirs_all (in_order : list (module * env * option (list module))) : list (str * str) :=
    fold_left (fun acc mm => match m_srcdir (fst (fst mm)), m_download (fst (fst mm)) with
                             | Some srcdir, Some d => ainsert srcdir (dl_tagfile d srcdir) acc
                             | _, _ => acc end) in_order [].

  (* download.rs: Download::render / patch — the statements that fetch (and patch) a module's sources *)
  Definition e_dl_unsupported := EOther (S_ "unsupported-download").
  Definition e_dl_rule := EOther (S_ "missing-download-rule").
  Definition download_stmts (rules : list (str * rule)) (flat : fenv) (m : module) (srcdir : str) (d : download)
    : res (list stmt) :=
    match dl_source_of d with
    | DlUnsupported => Err e_dl_unsupported
    | DlGitCommit url commit =>
        let rule_env := [(S_ "commit", commit); (S_ "url", url)] in
        match get_rule (S_ "GIT_DOWNLOAD") rules with
        | None => Err e_dl_rule
        | Some dr =>
            rbind (to_ninja flat dr) (fun ndr =>
            let tag_dl := dl_tagfile_download srcdir in
            let dl_build := {| nb_rule := nr_name ndr; nb_inputs := None; nb_outs := [tag_dl];
                               nb_deps := None; nb_env := Some rule_env; nb_always := false |} in
            match dl_patches d with
            | None => Ok [SRule ndr; SBuild dl_build]
            | Some patches =>
                match get_rule (S_ "GIT_PATCH") rules with
                | None => Err e_dl_rule
                | Some pr =>
                    rbind (to_ninja flat pr) (fun npr =>
                    let p_build := {| nb_rule := nr_name npr;
                                      nb_inputs := Some (map (fun x => path_push (odflt [] (m_relpath m)) x) patches);
                                      nb_outs := [dl_tagfile_patched srcdir]; nb_deps := Some [tag_dl];
                                      nb_env := Some rule_env; nb_always := false |} in
                    Ok [SRule ndr; SBuild dl_build; SRule npr; SBuild p_build])
                end
            end)
        end
    end.

  (* the per-module body, generate.rs:598-918 (without downloads) *)
  Definition module_step (rules : list (str * rule)) (merge_opts : option (list (str * mergeopt)))
             (ms : list module) (global_deps : list module) (objdir builder_name binary_name : str)
             (st : loopst) (mm : module * env * option (list module)) : res loopst :=
    let '(m, menv, mdeps) := mm in
    match m_srcdir m with
    | None => Ok st                                                   (* context module *)
    | Some srcdir =>
      rbind (flatten_with_opts_option merge_opts menv) (fun flat =>
      rbind (match m_download m with
             | Some d => download_stmts rules flat m srcdir d
             | None => Ok [] end) (fun dl_stmts =>
      let st := fold_left (fun s e => add_entry e s) dl_stmts st in
      rbind (match m_download m with
             | Some d => Ok (st, None)
             | None => rmap (fun sx => (st, containing_path (ls_dldirs st) sx)) (expand_eval EV flat PIgnore srcdir)
             end) (fun '(st, src_tagfile) =>
      let have_global := match global_deps with [] => false | _ => true end in
      let mdeps1 := if have_global && negb (m_is_global_build_dep m)
                    then Some (fold_left (fun acc d => mset_insert d acc) (odflt [] mdeps) global_deps)
                    else mdeps in
      rbind (match mdeps1 with
             | Some l => rmap Some
                 (Ok (fold_left (fun files d => iset_union files (odflt [] (alookup (m_name d) (ls_depfiles st)))) l []))
             | None => Ok None end) (fun imported0 =>
      let imported := match imported0 with Some [] => None | o => o end in
      let st1 := match m_build_dep_files m with
                 | Some l => add_depfiles (m_name m) l st
                 | None => st end in
      let local_deps := m_build_dep_files m in
      let combined := match imported, m_build_dep_files m with
                      | None, None => None
                      | _, _ => Some (sort_paths (odflt [] imported ++ odflt [] (m_build_dep_files m))) end in
      let deps_hash := match combined with Some l => H (enc_usize (length l) ++ flat_map enc_path l) | None => 0%N end in
      match m_build m with
      | Some cb =>
          rbind (expand_eval EV flat PEmpty (intercalate (S_ " && ") (cb_cmd cb))) (fun cmd =>
          let r := named H {| nr_name := S_ "BUILD"; nr_command := cmd; nr_description := Some (S_ "BUILD ${out}");
                              nr_export := None; nr_deps := cb_gcc_deps cb; nr_rspfile := None;
                              nr_rspfile_content := None; nr_pool := None; nr_always := false |} in
          rbind (rmapM (fun s => expand_eval EV flat PEmpty (path_push srcdir s)) (all_sources m ms)) (fun srcs =>
          rbind (rmapM (fun o => expand_eval EV flat PEmpty o) (odflt [] (cb_out cb))) (fun outs =>
          let outs_hash := H (flat_map enc_path outs) in
          let b := {| nb_rule := nr_name r; nb_inputs := Some srcs; nb_outs := sort_paths outs;
                      nb_deps := option_map sort_paths combined; nb_env := None; nb_always := false |} in
          let alias_name := S_ "outs_" ++ show_dec outs_hash in
          let st2 := add_depfiles (m_name m) [alias_name] st1 in
          Ok (add_entry (SBuild (alias_multiple_build outs alias_name)) (add_entry (SBuild b) (add_entry (SRule r) st2))))))
      | None =>
          (* map extension -> rule (evaluated for every source, as `or_insert(expr)` does) *)
          rbind (fold_left (fun acc source => rbind acc (fun '(mr, s) =>
                    match extension source with
                    | None => Err e_missing_ext
                    | Some ext =>
                        match alookup ext rules with
                        | None => Err e_no_rule
                        | Some rule =>
                            rbind (to_ninja flat rule) (fun nr =>
                            Ok (match alookup ext mr with Some _ => mr | None => mr ++ [(ext, nr)] end,
                                add_entry (SRule nr) s))
                        end
                    end)) (all_sources m ms) (Ok ([], st1))) (fun '(module_rules, st2) =>
          fold_left (fun acc source => rbind acc (fun s =>
                       compile_source rules module_rules flat objdir builder_name binary_name srcdir
                                      combined deps_hash local_deps src_tagfile s source))
                    (all_sources m ms) (Ok st2))
      end))))
    end.

  Definition has_opt_list (l : option (list str)) (x : str) : bool :=
    match l with Some l => forallb (fun v => mem_str v [x]) [] | None => true end.

  (* task requirement checks, context.rs:148-279 *)
  Definition task_check (flat : fenv) (ms : list module) (t : task) : option taskerr :=
    match find (fun v => match alookup v flat with Some _ => false | None => true end) (odflt [] (t_required_vars t)) with
    | Some v => Some (RequiredVarMissing v)
    | None =>
        match find (fun n => match find_sel n ms with Some _ => false | None => true end) (odflt [] (t_required_modules t)) with
        | Some n => Some (RequiredModuleMissing n)
        | None => None
        end
    end.

  Definition e_task := EOther (S_ "task-expansion").
  (* Task::with_env_eval *)
  Definition task_eval (flat : fenv) (t : task) : res task :=
    rbind (rmapM (expand_eval EV flat PEmpty) (t_cmd t)) (fun cmd =>
    rbind (match t_export t with
           | Some l => rmap Some (rmapM (apply_export EV flat) l)
           | None => Ok None end) (fun exp =>
    rbind (match t_workdir t with
           | Some w => rmap Some (expand_eval EV flat PEmpty w)
           | None => Ok None end) (fun wd =>
    Ok {| t_cmd := cmd; t_required_vars := t_required_vars t; t_required_modules := t_required_modules t;
          t_export := exp; t_build := t_build t; t_workdir := wd |}))).

  Definition task_insert (flat : fenv) (ms : list module)
             (acc : res (list (str * (task + taskerr)))) (nt : str * task) : res (list (str * (task + taskerr))) :=
    rbind acc (fun l =>
      match task_check flat ms (snd nt) with
      | Some e => Ok (ainsert (fst nt) (inr e) l)
      | None => rbind (task_eval flat (snd nt)) (fun t => Ok (ainsert (fst nt) (inl t) l))
      end).

  (* Context::collect_tasks: contexts root -> builder; after each context, all module tasks *)
  Definition collect_tasks (b : bag) (builder : nat) (flat : fenv) (ms : list module)
    : res (list (str * (task + taskerr))) :=
    fold_left (fun acc c =>
                 let acc1 := fold_left (task_insert flat ms) (odflt [] (c_tasks c)) acc in
                 fold_left (fun a m => fold_left (task_insert flat ms) (m_tasks m) a) ms acc1)
              (ctxs_of b (parents_root_first b builder)) (Ok []).

  Definition opt_nat_eqb (a b : option nat) : bool :=
    match a, b with Some x, Some y => Nat.eqb x y | None, None => true | _, _ => false end.
  Definition shadowed (b : bag) (builder : nat) (binary : module) : bool :=
    match resolve_module b builder (m_name binary) with
    | Some seen => negb (opt_nat_eqb (m_context_id seen) (m_context_id binary))
    | None => false
    end.

  (* configure_build, generate.rs:345-1011 *)
  Definition configure_build (b : bag) (le : lazeenv) (builder : nat) (binary : module)
             (select : list dep) (disable : list str) (cli_env : option env) : res cfg_result :=
    match bag_get b builder with
    | None => Panic 100
    | Some bctx =>
      rbind (is_allowed (bag_tree b) builder (m_blocklist binary) (m_allowlist binary)) (fun ba =>
      if negb (allowed_bool ba) then Ok (NoBuild NotAllowed) else
      rbind (opt_unwrap 101 (m_context_id binary)) (fun bin_ctx =>
      rbind (is_ancestor (tree_fuel (bag_tree b)) (bag_tree b) bin_ctx builder 0) (fun anc =>
      match anc with
      | None => Ok (NoBuild NotAncestor)
      | Some _ =>
        (* the builder sees the definition of the app's name nearest to it: an app of that name further up
           the chain is shadowed *)
        if shadowed b builder binary then Ok (NoBuild Shadowed) else
        let disabled0 := fold_left (fun a x => iset_insert x a) disable (collect_disabled b builder) in
        match resolve_build b builder (c_name bctx) binary select disabled0 with
        | Err _ => Ok (NoBuild Unresolved)
        | Panic n => Panic n
        | Fuel => Fuel
        | Ok rst =>
          let ms := sel rst in
          let provs := provby rst in
          let rules := collect_rules b builder in
          let merge_opts := c_var_options bctx in
          rbind (opt_unwrap 102 (m_relpath binary)) (fun relpath =>
          let names := map m_name ms in
          let genv := global_env b le builder bctx binary ms relpath cli_env in
          rbind (flatten_with_opts_option merge_opts genv) (fun gflat =>
          rbind (expand gflat PEmpty (S_ "${outfile}")) (fun outfile =>
          let objdir := path_push (le_build_dir le) (S_ "objects") in
          let global_deps := filter m_is_global_build_dep ms in
          rbind (rmapM (fun m => rmap (fun eb => (m, fst eb, snd eb)) (build_env genv ms provs m)) ms) (fun mods =>
          (* build-order graph *)
          let root := @nil ascii in
          let gnode := S_ "_global_build_deps" in
          let g := fold_left (fun g d => g_register_dependency g gnode (m_name d)) global_deps g_empty in
          let g := fold_left (fun g mm =>
                     let '(m, _, mdeps) := mm in
                     let g1 := fold_left (fun g d => g_register_dependency g (m_name m) (m_name d)) (odflt [] mdeps) g in
                     let g2 := g_register_dependency g1 root (m_name m) in
                     if m_is_global_build_dep m then g2 else g_register_dependency g2 (m_name m) gnode)
                   mods g in
          match dependencies_of g root with
          | None => Ok (NoBuild BuildDepCycle)
          | Some order =>
            let order := filter (fun n => negb (str_eqb n root) && negb (str_eqb n gnode)) order in
            rbind (rmapM (fun n => opt_unwrap 103 (find (fun mm => str_eqb n (m_name (fst (fst mm)))) mods)) order) (fun in_order =>
            rbind (fold_left (fun acc mm => rbind acc (fun st =>
                                module_step rules merge_opts ms global_deps objdir (c_name bctx) (m_name binary) st mm))
                             in_order (Ok {| ls_entries := []; ls_objects := []; ls_depfiles := [];
                                             ls_dldirs := dldirs_all in_order |})) (fun st =>
            let gfiles := fold_left (fun acc d => match alookup (m_name d) (ls_depfiles st) with
                                                  | Some fs => iset_union acc fs | None => acc end) global_deps [] in
            let gfiles := match gfiles with [] => None | _ => Some (sort_paths gfiles) end in
            match get_rule (S_ "LINK") rules with
            | None => Err e_missing_link
            | Some lrule =>
              rbind (to_ninja gflat lrule) (fun nlink =>
              let lb := {| nb_rule := nr_name nlink; nb_inputs := Some (ls_objects st); nb_outs := [outfile];
                           nb_deps := gfiles; nb_env := None; nb_always := nr_always nlink |} in
              let entries := sset_insert (SBuild lb) (sset_insert (SRule nlink) (ls_entries st)) in
              rbind (match get_rule (S_ "POST_LINK") rules with
                     | None => Ok (outfile, entries)
                     | Some prule =>
                         match r_out prule with
                         | None => Err e_postlink_out
                         | Some pout =>
                             let new_out := with_extension outfile pout in
                             rbind (to_ninja gflat prule) (fun np =>
                             let pb := {| nb_rule := nr_name np; nb_inputs := Some [outfile]; nb_outs := [new_out];
                                          nb_deps := None; nb_env := None; nb_always := nr_always np |} in
                             Ok (new_out, sset_insert (SBuild pb) (sset_insert (SRule np) entries)))
                         end
                     end) (fun '(final_out, entries) =>
              rbind (collect_tasks b builder (ainsert (S_ "out") final_out gflat) ms) (fun tasks =>
              Ok (Built {| bi_binary := m_name binary; bi_builder := c_name bctx; bi_out := final_out;
                           bi_tasks := tasks; bi_modules := names; bi_build_order := order |} entries))))
            end))
          end))))
        end
      end)))
    end.

  (* ---------- the Generator: selection and the ordered union ---------- *)
  Inductive selector := SelAll | SelSome (l : list str).
  Definition selects (s : selector) (n : str) : bool := match s with SelAll => true | SelSome l => mem_str n l end.

  Definition e_unknown_builder := EOther (S_ "unknown-builder").
  Definition e_not_builder := EOther (S_ "not-a-builder").
  Definition e_unknown_app := EOther (S_ "unknown-app").
  Definition e_not_in_dir := EOther (S_ "app-not-in-dir").

  Definition selected_builders (b : bag) (s : selector) : res (list nat) :=
    match s with
    | SelAll => Ok (map fst (builders b))
    | SelSome l => rmapM (fun n => match bag_index b n with
                                   | None => Err e_unknown_builder
                                   | Some i => match bag_get b i with
                                               | Some c => if c_is_builder c then Ok i else Err e_not_builder
                                               | None => Err e_unknown_builder end
                                   end) (nodup_str l)
    end.

  Definition binaries (b : bag) : list module := filter m_is_binary (all_modules b).

  (* local mode: Some start_dir *)
  Definition selected_bins (b : bag) (apps : selector) (local : option str) : res (list module) :=
    let bins := binaries b in
    match (match apps with
           | SelSome l => find (fun a => negb (existsb (fun m => str_eqb a (m_name m)) bins)) l
           | SelAll => None end) with
    | Some _ => Err e_unknown_app
    | None =>
        let by_app := filter (fun m => selects apps (m_name m)) bins in
        match local with
        | None => Ok by_app
        | Some dir =>
            let in_dir m := match m_relpath m with Some r => path_eq r dir | None => false end in
            match apps with
            | SelSome _ => if forallb in_dir by_app then Ok by_app else Err e_not_in_dir
            | SelAll => Ok (filter in_dir by_app)
            end
        end
    end.

  Definition pairs {A B} (la : list A) (lb : list B) : list (A * B) :=
    flat_map (fun a => map (fun x => (a, x)) lb) la.

  Definition header (le : lazeenv) : str :=
    S_ "builddir = " ++ le_build_dir le ++ nl ++ S_ "build ALWAYS: phony" ++ nl.

  Record gen_result := { gr_stmts : list stmt; gr_file : str; gr_builds : list build_info; gr_nobuilds : list (str * str * nobuild) }.

  (* --partition: count:M/N keeps the tuples at positions i with i mod N = M-1 (a counter that
     advances on every tuple); hash:M/N keeps by a hash of builder name ++ app name *)
  Inductive partition := PNone | PCount (m n : nat) | PHash (keep : str -> bool).
  Fixpoint count_filter {A} (m n i : nat) (l : list A) : list A :=
    match l with
    | [] => []
    | x :: t => (if Nat.eqb (Nat.modulo i n) (m - 1) then [x] else []) ++ count_filter m n (S i) t
    end.
  Definition part_filter (b : bag) (p : partition) (tuples : list (nat * module)) : list (nat * module) :=
    match p with
    | PNone => tuples
    | PCount m n => count_filter m n 0 tuples
    | PHash keep => filter (fun bm => match bag_get b (fst bm) with
                                      | Some c => keep (c_name c ++ m_name (snd bm)) | None => false end) tuples
    end.

  (* Generator::execute after loading *)
  Definition generate (b : bag) (le : lazeenv) (bsel asel : selector) (local : option str)
             (part : partition)
             (select : list dep) (disable : list str) (cli_env : option env) : res gen_result :=
    rbind (selected_builders b bsel) (fun bs =>
    rbind (selected_bins b asel local) (fun bins =>
    let tuples := part_filter b part (pairs bs bins) in
    rbind (rmapM (fun bm => rmap (fun r => (bm, r)) (configure_build b le (fst bm) (snd bm) select disable cli_env)) tuples) (fun results =>
    let entries := fold_left (fun acc r => match snd r with
                                           | Built _ es => fold_left (fun a e => sset_insert e a) es acc
                                           | NoBuild _ => acc end) results [] in
    Ok {| gr_stmts := entries; gr_file := header le ++ concat (map show_stmt entries);
          gr_builds := flat_map (fun r => match snd r with Built i _ => [i] | NoBuild _ => [] end) results;
          gr_nobuilds := flat_map (fun r => match snd r with
                                            | NoBuild w => [(match bag_get b (fst (fst r)) with Some c => c_name c | None => [] end,
                                                             m_name (snd (fst r)), w)]
                                            | Built _ _ => [] end) results |}))).
End Gen.
