(* Hash.v — std's DefaultHasher (SipHash-1-3, zero keys) over the byte stream that the
   derived/handwritten Hash impls of laze feed it. Used to *execute* the model so that
   generated file names agree byte-for-byte; theorems treat hashes abstractly (Section
   variables with an injectivity hypothesis), see proofs. Differential-tested against the real
   hasher through the oracle (requests `hashrule`, `hashpaths`). *)
From Coq Require Import Ascii String.
From Coq Require Import List Arith Bool NArith.
Import ListNotations.
Require Import Laze.model.Base Laze.model.Path.
Open Scope list_scope.
Open Scope N_scope.

Definition mask64 : N := 18446744073709551615.
Definition add64 (a b : N) : N := N.land (a + b) mask64.
Definition rotl64 (x : N) (n : N) : N :=
  N.lor (N.land (N.shiftl x n) mask64) (N.shiftr x (64 - n)).

Record sip := { v0 : N; v1 : N; v2 : N; v3 : N }.

Definition sipround (s : sip) : sip :=
  let v0 := add64 (v0 s) (v1 s) in
  let v1 := N.lxor (rotl64 (v1 s) 13) v0 in
  let v0 := rotl64 v0 32 in
  let v2 := add64 (v2 s) (v3 s) in
  let v3 := N.lxor (rotl64 (v3 s) 16) v2 in
  let v0 := add64 v0 v3 in
  let v3 := N.lxor (rotl64 v3 21) v0 in
  let v2 := add64 v2 v1 in
  let v1 := N.lxor (rotl64 v1 17) v2 in
  let v2 := rotl64 v2 32 in
  {| v0 := v0; v1 := v1; v2 := v2; v3 := v3 |}.

Definition sip_init : sip :=
  {| v0 := 8317987319222330741; v1 := 7237128888997146477;
     v2 := 7816392313619706465; v3 := 8387220255154660723 |}.

(* little-endian word from up to 8 bytes *)
Fixpoint le_word (bs : list ascii) : N :=
  match bs with
  | [] => 0
  | b :: t => byte_n b + 256 * le_word t
  end.

Definition compress (s : sip) (m : N) : sip :=
  let s1 := {| v0 := v0 s; v1 := v1 s; v2 := v2 s; v3 := N.lxor (v3 s) m |} in
  let s2 := sipround s1 in
  {| v0 := N.lxor (v0 s2) m; v1 := v1 s2; v2 := v2 s2; v3 := v3 s2 |}.

Fixpoint sip_blocks (fuel : nat) (s : sip) (bs : list ascii) (len : N) : N :=
  match fuel with
  | O => 0%N
  | S fuel =>
      match bs with
      | b0 :: b1 :: b2 :: b3 :: b4 :: b5 :: b6 :: b7 :: rest =>
          sip_blocks fuel (compress s (le_word [b0; b1; b2; b3; b4; b5; b6; b7])) rest len
      | tail =>
          let b := N.lor (N.shiftl (N.land len 255) 56) (le_word tail) in
          let s1 := compress s b in
          let s2 := {| v0 := v0 s1; v1 := v1 s1; v2 := N.lxor (v2 s1) 255; v3 := v3 s1 |} in
          let s3 := sipround (sipround (sipround s2)) in
          N.lxor (N.lxor (v0 s3) (v1 s3)) (N.lxor (v2 s3) (v3 s3))
      end
  end.

Definition siphash13 (bs : list ascii) : N :=
  sip_blocks (S (length bs)) sip_init bs (N.of_nat (length bs)).

(* byte-stream encoders of the std Hash impls *)
Fixpoint le_bytes (n : nat) (x : N) : list ascii :=
  match n with O => [] | S n' => ascii_of_N (N.modulo x 256) :: le_bytes n' (N.div x 256) end.
Definition enc_u64 (x : N) : list ascii := le_bytes 8 x.
Definition enc_usize (x : nat) : list ascii := le_bytes 8 (N.of_nat x).
Definition enc_str (s : str) : list ascii := s ++ [ascii_of_N 255].
Definition enc_opt_str (o : option str) : list ascii :=
  match o with None => enc_u64 0 | Some s => enc_u64 1 ++ enc_str s end.

(* camino: Utf8Path hashes its components; Utf8Component derives Hash
   (Prefix=0, RootDir=1, CurDir=2, ParentDir=3, Normal(&str)=4) *)
Definition enc_component (c : str) : list ascii :=
  if str_eqb c [ch_slash] then enc_u64 1
  else if str_eqb c [ch_dot] then enc_u64 2
  else if str_eqb c [ch_dot; ch_dot] then enc_u64 3
  else enc_u64 4 ++ enc_str c.
Definition enc_path (p : str) : list ascii := flat_map enc_component (components p).

(* utils::calculate_hash(&Vec<Cow<Utf8Path>>) *)
Definition hash_paths (l : list str) : N :=
  siphash13 (enc_usize (length l) ++ flat_map enc_path l).
(* the hasher fed with each out path in turn (generate.rs custom build outs) *)
Definition hash_outs (l : list str) : N := siphash13 (flat_map enc_path l).

Close Scope N_scope.
