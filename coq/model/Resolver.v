(* Resolver.v — mirrors src/build.rs: Build::new (select order) and the Resolver
   (resolve_module_deep, the dependency loop, resolve_module_list, snapshot/rollback).
   Definitions only.

   Rollback: the Rust code mutates self.state and keeps a stack of snapshots (state_push
   before a module is entered, state_pop on a failing hard dependency, commit = dropping the
   snapshot). Every failing path either returns before state_push or pops exactly once, and
   ResolverState is a persistent value, so "on Err the caller continues with the state it had
   before the call" is what the code computes; the model returns no state on Err. *)
From Coq Require Import Ascii String.
From Coq Require Import List Arith Bool NArith.
Import ListNotations.
Require Import Laze.model.Base Laze.model.Env Laze.model.Allow Laze.model.Ninja Laze.model.Ctx.
Open Scope list_scope.

Definition conflicts_of (m : module) : list str := odflt [] (m_conflicts m).
Definition provides_of (m : module) : list str := odflt [] (m_provides m).

Fixpoint has_key {V} (k : str) (m : list (str * V)) : bool :=
  match m with [] => false | (k', _) :: r => str_eqb k k' || has_key k r end.
Fixpoint get_list {V} (k : str) (m : list (str * list V)) : list V :=
  match m with [] => [] | (k', v) :: r => if str_eqb k k' then v else get_list k r end.
(* entry(k).or_default().push(v) *)
Fixpoint app_at {V} (k : str) (v : V) (m : list (str * list V)) : list (str * list V) :=
  match m with
  | [] => [(k, [v])]
  | (k', l) :: r => if str_eqb k k' then (k', l ++ [v]) :: r else (k', l) :: app_at k v r
  end.

Record rstate := {
  sel : list module;                          (* module_list; module_set = names of sel *)
  ifthen : list (str * list dep);             (* if_then_deps *)
  disabled : list (str * list str);           (* disabled_modules: name -> disablers *)
  provby : list (str * list module) }.        (* provided_by *)

Definition selected (n : str) (st : rstate) : bool := existsb (fun m => str_eqb n (m_name m)) (sel st).

Definition e_resolve := EOther (S_ "unresolved").

Section WithCtx.
  Variable lookup : str -> option module.        (* build_context.resolve_module *)
  Variable provs : str -> option (list str).     (* build_context.provided.get *)

  Definition add_conflicts (m : module) (st : rstate) : rstate :=
    {| sel := sel st; ifthen := ifthen st;
       disabled := fold_left (fun d c => app_at c (m_name m) d) (conflicts_of m) (disabled st);
       provby := provby st |}.
  Definition add_provby (m : module) (st : rstate) : rstate :=
    {| sel := sel st; ifthen := ifthen st; disabled := disabled st;
       provby := fold_left (fun p x => app_at x m p) (provides_of m) (provby st) |}.
  Definition push (m : module) (st : rstate) : rstate :=
    {| sel := sel st ++ [m]; ifthen := ifthen st; disabled := disabled st; provby := provby st |}.
  Definition add_ifthen (o : str) (d : dep) (st : rstate) : rstate :=
    {| sel := sel st; ifthen := app_at o d (ifthen st); disabled := disabled st; provby := provby st |}.

  Inductive cls := Register (o : str) (d : dep) | Go (n : str) (optional : bool).
  Definition classify (d : dep) (st : rstate) : cls :=
    match d with
    | Hard n => Go n false
    | Soft n => Go n true
    | IfThenHard o n => if selected o st then Go n false else Register o (Hard n)
    | IfThenSoft o n => if selected o st then Go n true else Register o (Soft n)
    end.

  (* resolve_module_name_deep *)
  Definition by_name (rec : rstate -> module -> res rstate) (st : rstate) (n : str) : res rstate :=
    match lookup n with Some m => rec st m | None => Err e_resolve end.

  (* resolve_module_list, build.rs:333-381: state and count *)
  Fixpoint rlist (rec : rstate -> module -> res rstate) (pn : str) (ps : list str)
           (cur : rstate) (count : nat) : res (rstate * nat) :=
    match ps with
    | [] => Ok (cur, count)
    | p :: ps' =>
        if selected p cur then rlist rec pn ps' cur (S count)
        else if has_key pn (disabled cur)
        then (if Nat.ltb 0 count then Ok (cur, count) else rlist rec pn ps' cur count)
        else match by_name rec cur p with
             | Ok c => rlist rec pn ps' c (S count)
             | Err _ => rlist rec pn ps' cur count
             | Panic k => Panic k
             | Fuel => Fuel
             end
    end.

  (* the dependency loop, build.rs:241-318 *)
  Fixpoint deps (rec : rstate -> module -> res rstate) (ds : list dep) (cur : rstate) : res rstate :=
    match ds with
    | [] => Ok cur
    | d :: ds' =>
        match classify d cur with
        | Register o d' => deps rec ds' (add_ifthen o d' cur)
        | Go n optional =>
            let pr := match provs n with
                      | Some ps => match rlist rec n ps cur 0 with
                                   | Ok (c, cnt) => if Nat.ltb 0 cnt then Ok (c, true) else Ok (cur, false)
                                   | Err e => Err e | Panic k => Panic k | Fuel => Fuel end
                      | None => Ok (cur, false) end in
            match pr with
            | Fuel => Fuel | Err e => Err e | Panic k => Panic k
            | Ok (cur1, wp) =>
                if wp && has_key n (disabled cur1) then deps rec ds' cur1
                else match by_name rec cur1 n with
                     | Ok cur2 => deps rec ds' cur2
                     | Err e => if optional || wp then deps rec ds' cur1 else Err e_resolve
                     | Panic k => Panic k
                     | Fuel => Fuel
                     end
            end
        end
    end.

  (* the entry tests of resolve_module_deep, build.rs:146-209 *)
  Definition blocked (st : rstate) (m : module) : bool :=
    has_key (m_name m) (disabled st)
    || existsb (fun c => selected c st || has_key c (provby st)) (conflicts_of m)
    || existsb (fun x => has_key x (disabled st)) (provides_of m).

  Definition enter (st : rstate) (m : module) : rstate := push m (add_provby m (add_conflicts m st)).

  (* resolve_module_deep *)
  Fixpoint resolve_deep (f : nat) (st : rstate) (m : module) : res rstate :=
    match f with
    | O => Fuel
    | S f' =>
        if selected (m_name m) st then Ok st
        else if blocked st m then Err e_resolve
        else let st1 := enter st m in
             deps (resolve_deep f') (m_selects m ++ get_list (m_name m) (ifthen st1)) st1
    end.
End WithCtx.

Definition with_selects (m : module) (s : list dep) : module :=
  {| m_name := m_name m; m_context_name := m_context_name m; m_selects := s;
     m_imports := m_imports m; m_provides := m_provides m; m_conflicts := m_conflicts m;
     m_notify_all := m_notify_all m; m_blocklist := m_blocklist m; m_allowlist := m_allowlist m;
     m_sources := m_sources m; m_sources_optional := m_sources_optional m; m_tasks := m_tasks m;
     m_build := m_build m; m_env_local := m_env_local m; m_env_export := m_env_export m;
     m_env_global := m_env_global m; m_env_early := m_env_early m; m_relpath := m_relpath m;
     m_srcdir := m_srcdir m; m_build_dep_files := m_build_dep_files m;
     m_is_build_dep := m_is_build_dep m; m_is_global_build_dep := m_is_global_build_dep m;
     m_is_binary := m_is_binary m; m_context_id := m_context_id m; m_defined_in := m_defined_in m;
     m_download := m_download m |}.

(* Build::new: the binary's selects become  CLI selects ++ app selects ++ [Hard context::<builder>] *)
Definition build_binary (binary : module) (builder_name : str) (cli_selects : list dep) : module :=
  with_selects binary (cli_selects ++ m_selects binary ++ [Hard (ctx_module_name builder_name)]).

(* the set of names the resolver can ever select: fuel bound *)
Definition resolver_fuel (b : bag) : nat := S (S (length (all_modules b))).

Definition init_state (disabled0 : list str) : rstate :=
  {| sel := []; ifthen := []; disabled := map (fun n => (n, [])) disabled0; provby := [] |}.

(* Build::resolve_selects for (builder, binary) *)
Definition resolve_build (b : bag) (builder : nat) (builder_name : str) (binary : module)
           (cli_selects : list dep) (disabled0 : list str) : res rstate :=
  let provided := match bag_get b builder with Some c => c_provided c | None => None end in
  resolve_deep (resolve_module b builder)
               (fun n => match provided with Some p => alookup n p | None => None end)
               (resolver_fuel b) (init_state disabled0)
               (build_binary binary builder_name cli_selects).
