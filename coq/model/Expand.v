(* Expand.v — mirrors src/nested_env/expand.rs (variable expansion) and
   src/nested_env/expr.rs (the $(...) scanner). Definitions only. *)
From Coq Require Import Ascii String.
From Coq Require Import List Arith Bool NArith.
Import ListNotations.
Require Import Laze.model.Base Laze.model.Env.
Open Scope list_scope.

Definition ch_dollar : ascii := "$"%char.
Definition ch_lbrace : ascii := "{"%char.
Definition ch_rbrace : ascii := "}"%char.
Definition ch_bslash : ascii := "\"%char.
Definition ch_lparen : ascii := "("%char.
Definition ch_rparen : ascii := ")"%char.

(* expand.rs:15-24 (with the Defer policy of the load-time pass) *)
Inductive policy := PError | PIgnore | PDefer | PEmpty.

Inductive seg := Lit (s : str) | Ref (k : str).

(* f[cursor..].find('}') : key up to the first '}', and the rest after it *)
Fixpoint split_rbrace (s : str) : option (str * str) :=
  match s with
  | [] => None
  | c :: r => if Ascii.eqb c ch_rbrace then Some ([], r)
              else match split_rbrace r with Some (k, t) => Some (c :: k, t) | None => None end
  end.

(* The scanning loop of expand_recursive, expand.rs:86-122.
   [pos] = byte offset of the head of [s] in f; [prev] = the byte before it if that byte
   lies at or after the loop's cursor (the "start > 0" test), [lit] = literal text since the
   last replacement (reversed), [esc] = the `escapes` flag. *)
Fixpoint scan (fuel : nat) (pos : N) (prev : option ascii) (s : str) (lit : str) (esc : bool)
  : res (list seg * bool) :=
  match fuel with
  | O => Fuel
  | S fuel =>
    match s with
    | [] => Ok ([Lit (rev lit)], esc)
    | c :: r =>
      match r with
      | d :: r' =>
        if Ascii.eqb c ch_dollar && Ascii.eqb d ch_lbrace then
          if match prev with Some p => Ascii.eqb p ch_bslash | None => false end
          then scan fuel (pos + 1) (Some c) r (c :: lit) true      (* :92-96 escaped, cursor on '{' *)
          else match split_rbrace r' with
               | None => Err (EUnclosed pos)                          (* :117 *)
               | Some (k, t) =>
                   match scan fuel (pos + 3 + N.of_nat (length k)) None t [] esc with
                   | Ok (segs, e) => Ok (Lit (rev lit) :: Ref k :: segs, e)
                   | Err x => Err x | Panic n => Panic n | Fuel => Fuel
                   end
               end
        else scan fuel (pos + 1) (Some c) r (c :: lit) esc
      | [] => Ok ([Lit (rev (c :: lit))], esc)
      end
    end
  end.

(* str::replace("\\${", "${"), expand.rs:163-165 *)
Fixpoint unescape (s : str) : str :=
  match s with
  | [] => []
  | a :: t =>
      match t with
      | b :: c :: r =>
          if Ascii.eqb a ch_bslash && Ascii.eqb b ch_dollar && Ascii.eqb c ch_lbrace
          then b :: c :: unescape r
          else a :: unescape t
      | _ => a :: t
      end
  end.

(* the replacement loop of expand_recursive, expand.rs:130-155; [rec] is the recursive call
   (expansion of a variable's value with the extended `seen` list) *)
Definition missing_value (pol : policy) (k : str) : res str :=
  match pol with
  | PError => Err (EMissing k)
  | PIgnore | PDefer => Ok (S_ "${" ++ k ++ S_ "}")
  | PEmpty => Ok []
  end.

(* MAX_DEPTH: the recursion uses the call stack; deeper nesting is a typed error *)
Definition max_depth : nat := 100.

Fixpoint subst (r : fenv) (pol : policy) (rec : list str -> str -> res str)
         (seen : list str) (segs : list seg) : res str :=
  match segs with
  | [] => Ok []
  | Lit l :: t => match subst r pol rec seen t with Ok x => Ok (l ++ x) | e => e end
  | Ref k :: t =>
      if mem_str k seen then Err (ECycle k)                                 (* :136-138 *)
      else if Nat.leb max_depth (length seen) then Err (ETooDeep k)
      else
        match (match alookup k r with
               | Some v => rec (k :: seen) v                                  (* :142 *)
               | None => missing_value pol k
               end) with
        | Ok v => match subst r pol rec seen t with Ok x => Ok (v ++ x) | e => e end
        | e => e
        end
  end.

Definition keeps_escapes (pol : policy) : bool := match pol with PDefer => true | _ => false end.

Section Exp.
  Variable r : fenv.          (* the variable map *)
  Variable pol : policy.

  (* expand_recursive, expand.rs:72-168 *)
  Fixpoint expand_rec (fuel : nat) (seen : list str) (f : str) : res str :=
    match fuel with
    | O => Fuel
    | S fuel =>
      match scan (S (length f)) 0 None f [] false with
      | Fuel => Fuel | Err e => Err e | Panic n => Panic n
      | Ok (segs, esc) =>
        match subst r pol (expand_rec fuel) seen segs with
        | Ok x => Ok (if esc && negb (keeps_escapes pol) then unescape x else x)
        | e => e
        end
      end
    end.

  (* expand(), expand.rs:43-56: fuel = number of variables + 1 *)
  Definition expand (f : str) : res str := expand_rec (S (length r)) [] f.
End Exp.

(* ---------- expr.rs ---------- *)
Section Eval.
  Variable EV : str -> evr.        (* evalexpr::eval(..).to_string() *)

  (* contains("$(") *)
  Fixpoint contains_dollar_paren (s : str) : bool :=
    match s with
    | a :: t => match t with
                | b :: _ => (Ascii.eqb a ch_dollar && Ascii.eqb b ch_lparen) || contains_dollar_paren t
                | [] => false end
    | [] => false
    end.

  (* One pass of the character loop of eval_recursive, expr.rs:29-52.
     State: prev byte; [opened] = Some inner when `start > 0` (inner = the bytes collected
     since the opening parenthesis, reversed); level; result (reversed); input_changed.
     [rec] evaluates an inner slice (the recursive call with is_eval = true). *)
  Fixpoint eval_loop (rec : str -> res str) (s : str) (prev : option ascii)
           (opened : option str) (level : nat) (result : str) (changed : bool)
    : res (str * bool) :=
    match s with
    | [] => Ok (rev result, changed)
    | c :: t =>
      let next_is_paren := match t with d :: _ => Ascii.eqb d ch_lparen | [] => false end in
      let prev_is_dollar := match prev with Some p => Ascii.eqb p ch_dollar | None => false end in
      if Ascii.eqb c ch_dollar && next_is_paren && negb prev_is_dollar then
        (* :30-37 *)
        match level with
        | O => eval_loop rec t (Some c) (Some []) level result changed
        | S _ => eval_loop rec t (Some c) (option_map (cons c) opened) level result changed
        end
      else
        match opened with
        | Some inner =>
            if Ascii.eqb c ch_lparen then                                     (* :38-39 *)
              eval_loop rec t (Some c)
                        (Some (match level with O => inner | S _ => c :: inner end))
                        (S level) result changed
            else if Ascii.eqb c ch_rparen && Nat.ltb 0 level then              (* :40-46 *)
              match level with
              | 1 => match rec (rev inner) with
                     | Ok v => eval_loop rec t (Some c) None 0 (rev v ++ result) true
                     | Err e => Err e | Panic n => Panic n | Fuel => Fuel
                     end
              | _ => eval_loop rec t (Some c) (Some (c :: inner)) (pred level) result changed
              end
            else
              match level with
              | O => eval_loop rec t (Some c) opened level (c :: result) changed  (* :47-49 *)
              | S _ => eval_loop rec t (Some c) (Some (c :: inner)) level result changed
              end
        | None =>
            (* start == 0: parentheses are not counted; level is 0 here *)
            eval_loop rec t (Some c) None level (c :: result) changed
        end
    end.

  (* eval_recursive, expr.rs:23-65 *)
  Fixpoint eval_rec (fuel : nat) (is_eval : bool) (input : str) : res str :=
    match fuel with
    | O => Fuel
    | S fuel =>
      match eval_loop (eval_rec fuel true) input None None 0 [] false with
      | Ok (result, changed) =>
          if is_eval then
            match EV result with EvOk v => Ok v | EvErr => Err (EExpr result) | EvNeed => Err (ENeedEv result) end
          else Ok (if changed then result else input)
      | Err e => Err e | Panic n => Panic n | Fuel => Fuel
      end
    end.

  (* eval(), expr.rs:15-21 *)
  Definition eval (input : str) : res str :=
    if contains_dollar_paren input then eval_rec (S (length input)) false input else Ok input.

  (* expand_eval(), expand.rs:58-70 *)
  Definition expand_eval (r : fenv) (pol : policy) (f : str) : res str :=
    rbind (expand r pol f) eval.
End Eval.
