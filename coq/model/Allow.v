(* Allow.v — mirrors ContextBag::is_ancestor / is_ancestor_in_list / is_allowed
   (src/model/context_bag.rs) and BlockAllow (src/model/blockallow.rs). Definitions only.
   The bag is seen through two lists indexed by context id: names and parent indices. *)
From Coq Require Import Ascii String.
From Coq Require Import List Arith Bool NArith.
Import ListNotations.
Require Import Laze.model.Base.
Open Scope list_scope.

Record tree := { t_names : list str; t_parents : list (option nat) }.

Definition parent_of (t : tree) (i : nat) : option nat :=
  match nth_error (t_parents t) i with Some p => p | None => None end.

Fixpoint index_of (n : str) (l : list str) (i : nat) : option nat :=
  match l with
  | [] => None
  | x :: r => if str_eqb n x then Some i else index_of n r (S i)
  end.
Definition get_by_name (t : tree) (n : str) : option nat := index_of n (t_names t) 0.

(* is_ancestor, context_bag.rs: walks up from [other]; Some (index, depth) = IsAncestor::Yes *)
Fixpoint is_ancestor (fuel : nat) (t : tree) (cid other depth : nat) : res (option (nat * nat)) :=
  match fuel with
  | O => Fuel
  | S fuel =>
      if Nat.eqb cid other then Ok (Some (cid, depth))
      else match parent_of t other with
           | Some p => is_ancestor fuel t cid p (S depth)
           | None => Ok None
           end
  end.

Definition tree_fuel (t : tree) : nat := S (length (t_parents t)).

(* is_ancestor_in_list (after the C11 fix): the listed ancestor with the smallest depth *)
Fixpoint ancestor_in_list (t : tree) (ctx : nat) (l : list str) (nearest : option (nat * nat))
  : res (option (nat * nat)) :=
  match l with
  | [] => Ok nearest
  | n :: r =>
      match get_by_name t n with
      | None => ancestor_in_list t ctx r nearest
      | Some listed =>
          match is_ancestor (tree_fuel t) t listed ctx 0 with
          | Ok (Some (i, d)) =>
              ancestor_in_list t ctx r
                (match nearest with
                 | Some (_, nd) => if Nat.leb nd d then nearest else Some (i, d)
                 | None => Some (i, d)
                 end)
          | Ok None => ancestor_in_list t ctx r nearest
          | Err e => Err e | Panic k => Panic k | Fuel => Fuel
          end
      end
  end.

Inductive blockallow := Allowed | AllowedBy (i : nat) | Blocked | BlockedBy (i : nat).
Definition ba_allow (i d : nat) := match d with O => Allowed | _ => AllowedBy i end.
Definition ba_block (i d : nat) := match d with O => Blocked | _ => BlockedBy i end.

(* is_allowed, context_bag.rs *)
Definition is_allowed (t : tree) (ctx : nat) (blocklist allowlist : option (list str)) : res blockallow :=
  rbind (match allowlist with Some l => ancestor_in_list t ctx l None | None => Ok None end) (fun ae =>
  rbind (match blocklist with Some l => ancestor_in_list t ctx l None | None => Ok None end) (fun be =>
  Ok (match allowlist, blocklist with
      | Some _, Some _ =>
          match ae, be with
          | Some (ai, ad), Some (bi, bd) => if Nat.ltb bd ad then ba_block bi bd else ba_allow ai ad
          | Some (ai, ad), None => ba_allow ai ad
          | None, Some (bi, bd) => ba_block bi bd
          | None, None => Allowed
          end
      | Some _, None => match ae with None => Blocked | Some _ => Allowed end
      | None, Some _ => match be with Some (bi, bd) => ba_block bi bd | None => Allowed end
      | None, None => Allowed
      end))).

Definition allowed_bool (b : blockallow) : bool :=
  match b with Allowed | AllowedBy _ => true | _ => false end.

(* --- building the tree as the oracle request / ContextBag::finalize does --- *)
(* add_context_or_builder rejects duplicates; finalize adds "default" when absent and
   resolves parent names (unknown parent = error), then rejects parent cycles. *)
Fixpoint has_dup (l : list str) : bool :=
  match l with [] => false | x :: r => mem_str x r || has_dup r end.

Fixpoint resolve_parents (names : list str) (ps : list (option str)) : option (list (option nat)) :=
  match ps with
  | [] => Some []
  | None :: r => option_map (cons None) (resolve_parents names r)
  | Some p :: r =>
      match index_of p names 0, resolve_parents names r with
      | Some i, Some l => Some (Some i :: l)
      | _, _ => None
      end
  end.

(* walk up at most [n] steps: true if the chain from i ends *)
Fixpoint chain_ends (n : nat) (ps : list (option nat)) (i : nat) : bool :=
  match nth_error ps i with
  | Some (Some p) => match n with O => false | S n' => chain_ends n' ps p end
  | _ => true
  end.

Definition acyclic (ps : list (option nat)) : bool :=
  forallb (chain_ends (length ps) ps) (seq 0 (length ps)).

Inductive bagerr := BDuplicate | BUnknownParent | BCycle.

Definition build_tree (ctxs : list (str * option str)) : tree + bagerr :=
  let names0 := map fst ctxs in
  if has_dup names0 then inr BDuplicate else
  let ctxs1 := if mem_str (S_ "default") names0 then ctxs else ctxs ++ [(S_ "default", None)] in
  let names := map fst ctxs1 in
  match resolve_parents names (map snd ctxs1) with
  | None => inr BUnknownParent
  | Some ps => if acyclic ps then inl {| t_names := names; t_parents := ps |} else inr BCycle
  end.
