(* Path.v — the fragment of camino::Utf8Path / std::path::Path that generate.rs uses, on
   byte strings. Faithful for the paths the code builds from relative project paths;
   differential-tested against camino through the oracle (request `path`). *)
From Coq Require Import Ascii String.
From Coq Require Import List Arith Bool NArith.
Import ListNotations.
Require Import Laze.model.Base.
Open Scope list_scope.

Definition ch_slash : ascii := "/"%char.
Definition ch_dot : ascii := "."%char.
Definition is_slash (c : ascii) : bool := Ascii.eqb c ch_slash.

Definition is_absolute (p : str) : bool := match p with c :: _ => is_slash c | [] => false end.

Fixpoint last_char (p : str) : option ascii :=
  match p with [] => None | [c] => Some c | _ :: t => last_char t end.

(* PathBuf::push *)
Definition path_push (a b : str) : str :=
  if is_absolute b then b
  else match a with
       | [] => b
       | _ => match last_char a with
              | Some c => if is_slash c then a ++ b else a ++ ch_slash :: b
              | None => b
              end
       end.

(* split into raw pieces at '/' *)
Fixpoint split_slash (p : str) (cur : str) : list str :=
  match p with
  | [] => [rev cur]
  | c :: t => if is_slash c then rev cur :: split_slash t [] else split_slash t (c :: cur)
  end.

(* Path::components: empty pieces and "." pieces are dropped, except a leading "." ;
   a leading "/" is the RootDir component (represented by "/") *)
Definition components (p : str) : list str :=
  let pieces := split_slash p [] in
  let abs := is_absolute p in
  let fix go (first : bool) (l : list str) : list str :=
    match l with
    | [] => []
    | x :: t =>
        match x with
        | [] => go first t
        | _ => if str_eqb x [ch_dot] && negb (first && negb abs) then go false t
               else x :: go false t
        end
    end in
  (if abs then [[ch_slash]] else []) ++ go true pieces.

Definition file_name (p : str) : option str :=
  match rev (components p) with
  | x :: _ => if str_eqb x [ch_slash] || str_eqb x [ch_dot; ch_dot] || str_eqb x [ch_dot] then None else Some x
  | [] => None
  end.

(* split a file name at its last '.', unless the only dot is the first character *)
Fixpoint rsplit_dot (name : str) : option (str * str) :=
  (* returns (stem, ext) for the last dot *)
  match name with
  | [] => None
  | c :: t =>
      match rsplit_dot t with
      | Some (s, e) => Some (c :: s, e)
      | None => if Ascii.eqb c ch_dot then Some ([], t) else None
      end
  end.

Definition split_ext (name : str) : str * option str :=
  if str_eqb name [ch_dot; ch_dot] then (name, None)
  else match rsplit_dot name with
       | Some ([], _) => (name, None)          (* ".foo": no extension *)
       | Some (stem, ext) => (stem, Some ext)
       | None => (name, None)
       end.

Definition extension (p : str) : option str :=
  match file_name p with Some n => snd (split_ext n) | None => None end.

(* strip trailing separators and "/." so that the path ends with its file name *)
Fixpoint strip_trailing (r : str) : str :=   (* r is the reversed path *)
  match r with
  | c :: t => if is_slash c then strip_trailing t
              else match t with
                   | s :: _ => if Ascii.eqb c ch_dot && is_slash s then strip_trailing t else r
                   | [] => r
                   end
  | [] => []
  end.

(* Path::with_extension / PathBuf::set_extension (for paths that have a file name) *)
Definition with_extension (p : str) (ext : str) : str :=
  match file_name p with
  | None => p
  | Some n =>
      let base := rev (strip_trailing (rev p)) in          (* ends with n *)
      let dir := firstn (length base - length n) base in
      let stem := fst (split_ext n) in
      match ext with
      | [] => dir ++ stem
      | _ => dir ++ stem ++ ch_dot :: ext
      end
  end.

Fixpoint list_prefix (a b : list str) : bool :=
  match a, b with
  | [], _ => true
  | x :: a', y :: b' => str_eqb x y && list_prefix a' b'
  | _ :: _, [] => false
  end.
(* Path::starts_with: component-wise *)
Definition path_starts_with (p base : str) : bool := list_prefix (components base) (components p).
Definition path_eq (a b : str) : bool :=
  list_prefix (components a) (components b) && list_prefix (components b) (components a).

(* Ord for paths: lexicographic on components; Utf8Component derives Ord:
   RootDir < CurDir < ParentDir < Normal(_) *)
Definition comp_rank (c : str) : nat :=
  if str_eqb c [ch_slash] then 1 else if str_eqb c [ch_dot] then 2
  else if str_eqb c [ch_dot; ch_dot] then 3 else 4.
Fixpoint comps_leb (a b : list str) : bool :=
  match a, b with
  | [], _ => true
  | _ :: _, [] => false
  | x :: a', y :: b' =>
      if str_eqb x y then comps_leb a' b'
      else if Nat.eqb (comp_rank x) (comp_rank y) then str_leb x y
      else Nat.ltb (comp_rank x) (comp_rank y)
  end.
Definition path_leb (a b : str) : bool := comps_leb (components a) (components b).

Fixpoint insert_path (p : str) (l : list str) : list str :=
  match l with
  | [] => [p]
  | q :: t => if path_leb p q then p :: q :: t else q :: insert_path p t
  end.
(* Vec::sort (stable) *)
Definition sort_paths (l : list str) : list str := fold_right insert_path [] l.

(* Path::parent: the path without its last component (None/"" for "", "/" ) *)
Definition parent (p : str) : str :=
  match rev (components p) with
  | [] => []
  | n :: rest =>
      if str_eqb n [ch_slash] then []
      else
        let base := rev (strip_trailing (rev p)) in
        let dir := firstn (length base - length n) base in
        match rest with
        | [r] => if str_eqb r [ch_slash] then [ch_slash] else rev (strip_trailing (rev dir))
        | _ => rev (strip_trailing (rev dir))
        end
  end.

(* Path::strip_prefix: component-wise; the result is the rest of the *raw* string from the next
   real component on (Components::as_path trims separators and "." pieces at both ends) *)
Fixpoint drop_comps (l : list str) (k : nat) (first abs : bool) : list str :=
  match k with
  | O => l
  | S k' =>
      match l with
      | [] => []
      | x :: t =>
          match x with
          | [] => if first && abs then drop_comps t k' false abs else drop_comps t k false abs
          | _ => if str_eqb x [ch_dot] && negb (first && negb abs) then drop_comps t k false abs
                 else drop_comps t k' false abs
          end
      end
  end.
Definition is_filler (x : str) : bool := match x with [] => true | _ => str_eqb x [ch_dot] end.
Fixpoint trim_left (l : list str) : list str :=
  match l with x :: t => if is_filler x then trim_left t else l | [] => [] end.
Fixpoint join_slash (l : list str) : str :=
  match l with [] => [] | [x] => x | x :: t => x ++ ch_slash :: join_slash t end.
Definition strip_prefix (p base : str) : option str :=
  if list_prefix (components base) (components p)
  then match length (components base) with
       | O => (* nothing consumed: the whole path, separators and "." pieces trimmed at the end only *)
              let r := rev (strip_trailing (rev p)) in
              Some (match r with [] => if is_absolute p then [ch_slash] else [] | _ => r end)
       | k => let rest := drop_comps (split_slash p []) k true (is_absolute p) in
              Some (join_slash (rev (trim_left (rev (trim_left rest)))))
       end
  else None.
