(* Cache.v — the generate cache as a state machine over run / edit / kill histories.
   Mirrors src/generate.rs: Generator::execute (order of the file operations), GenerateResult::{new,
   to_cache, try_from} (validity conditions) and the way src/main.rs uses a cached result.
   Part 1 is generic in the tree, the arguments and the generator; part 2 instantiates it with the
   loader and generator of Load.v / Generate.v.  Definitions only. *)
From Coq Require Import Ascii String.
From Coq Require Import List Arith Bool NArith.
Import ListNotations.
Require Import Laze.model.Base Laze.model.Env Laze.model.Path Laze.model.Ninja Laze.model.Ctx
               Laze.model.Generate Laze.model.Load.
Open Scope list_scope.

(* ================================================================ part 1: the machine *)
Section Machine.
  Variables Tree Args TS R : Type.
  Variable precheck : Args -> res unit.          (* main.rs: -D / --select conversion, before execute() *)
  Variable load_ts : Tree -> res TS.             (* load(): Ok ts = (len, mtime) of every loaded file *)
  Variable gen : Tree -> Args -> res R.          (* everything between load() and the writes *)
  Variable ts_valid : TS -> Tree -> bool.        (* !treestate.has_changed() *)
  Variable accepts : Args -> R -> Args -> bool.  (* cached arguments, cached result, requested arguments *)
  Variable view : Args -> R -> R.                (* what a hit hands to main for the requested arguments *)
  Variable is_local : Args -> bool.              (* laze-cache-local / build-local.ninja *)

  (* the ninja file: absent, truncated or partly written, or complete for result r *)
  Inductive nfile := NAbsent | NPartial | NComplete (r : R).
  Record cache := { c_args : Args; c_ts : TS; c_res : R }.
  Record slot := { s_ninja : nfile; s_cache : option cache }.
  Record world := { w_tree : Tree; w_global : slot; w_local : slot }.

  Inductive failure := FErr (e : err) | FPanic (n : N) | FFuel.
  Inductive outcome := OHit (r : R) | ORegen (r : R) | OFail (f : failure) | OKilled.

  Definition fail_of {A} (x : res A) : failure :=
    match x with Err e => FErr e | Panic n => FPanic n | _ => FFuel end.

  Definition get_slot (w : world) (l : bool) : slot := if l then w_local w else w_global w.
  Definition set_slot (w : world) (l : bool) (s : slot) : world :=
    if l then {| w_tree := w_tree w; w_global := w_global w; w_local := s |}
    else {| w_tree := w_tree w; w_global := s; w_local := w_local w |}.

  (* GenerateResult::try_from *)
  Definition lookup (a : Args) (w : world) : option R :=
    match s_cache (get_slot w (is_local a)) with
    | Some c => if accepts (c_args c) (c_res c) a && ts_valid (c_ts c) (w_tree w)
                then Some (view a (c_res c)) else None
    | None => None
    end.

  (* One run. [stop] = the fault point at which the process is killed (0: runs to the end):
       1 after load()            2 after the stale cache was removed     3 after the ninja file was created
       4 after configure         5 after the entries were handed to the BufWriter
       6 after the ninja file was flushed                                7 after the cache was written *)
  Definition mrun (a : Args) (stop : nat) (w : world) : world * outcome :=
    match precheck a with
    | Ok _ =>
      match lookup a w with
      | Some r => (w, OHit r)
      | None =>
        match load_ts (w_tree w) with
        | Ok ts =>
          if Nat.eqb stop 1 then (w, OKilled) else
          let l := is_local a in
          let w2 := set_slot w l {| s_ninja := s_ninja (get_slot w l); s_cache := None |} in
          if Nat.eqb stop 2 then (w2, OKilled) else
          let w3 := set_slot w l {| s_ninja := NPartial; s_cache := None |} in
          if Nat.eqb stop 3 then (w3, OKilled) else
          match gen (w_tree w) a with
          | Ok r =>
            if Nat.eqb stop 4 || Nat.eqb stop 5 then (w3, OKilled) else
            let w6 := set_slot w l {| s_ninja := NComplete r; s_cache := None |} in
            if Nat.eqb stop 6 then (w6, OKilled) else
            let w7 := set_slot w l {| s_ninja := NComplete r;
                                      s_cache := Some {| c_args := a; c_ts := ts; c_res := r |} |} in
            if Nat.eqb stop 7 then (w7, OKilled) else (w7, ORegen r)
          | x => (w3, OFail (fail_of x))
          end
        | x => (w, OFail (fail_of x))
        end
      end
    | x => (w, OFail (fail_of x))
    end.

  (* histories: runs (possibly killed) and arbitrary changes of the tree in between *)
  (* ... and damage to a cache file: truncated or unreadable (a kill inside its write, a full disk);
     such a file does not deserialize, which is the same as no cache *)
  Inductive op := Run (a : Args) (stop : nat) | Edit (t : Tree) | Corrupt (l : bool).
  Definition mstep (w : world) (o : op) : world :=
    match o with
    | Run a k => fst (mrun a k w)
    | Edit t => {| w_tree := t; w_global := w_global w; w_local := w_local w |}
    | Corrupt l => set_slot w l {| s_ninja := s_ninja (get_slot w l); s_cache := None |}
    end.
  Definition empty_slot : slot := {| s_ninja := NAbsent; s_cache := None |}.
  Definition fresh (t : Tree) : world := {| w_tree := t; w_global := empty_slot; w_local := empty_slot |}.

  (* the order of the pinned tree (for the refutation lemmas): the stale cache is not removed and
     the new cache is written before the ninja file is flushed *)
  Definition run_pinned (a : Args) (stop : nat) (w : world) : world * outcome :=
    match precheck a with
    | Ok _ =>
      match lookup a w with
      | Some r => (w, OHit r)
      | None =>
        match load_ts (w_tree w) with
        | Ok ts =>
          if Nat.eqb stop 1 then (w, OKilled) else
          let l := is_local a in
          let old := s_cache (get_slot w l) in
          let w3 := set_slot w l {| s_ninja := NPartial; s_cache := old |} in
          if Nat.eqb stop 3 then (w3, OKilled) else
          match gen (w_tree w) a with
          | Ok r =>
            if Nat.eqb stop 4 || Nat.eqb stop 5 then (w3, OKilled) else
            let c := Some {| c_args := a; c_ts := ts; c_res := r |} in
            if Nat.eqb stop 7 then (set_slot w l {| s_ninja := NPartial; s_cache := c |}, OKilled) else
            (set_slot w l {| s_ninja := NComplete r; s_cache := c |}, ORegen r)
          | x => (w3, OFail (fail_of x))
          end
        | x => (w, OFail (fail_of x))
        end
      end
    | x => (w, OFail (fail_of x))
    end.
End Machine.

Arguments NAbsent {R}. Arguments NPartial {R}. Arguments NComplete {R}.
Arguments OHit {R}. Arguments ORegen {R}. Arguments OFail {R}. Arguments OKilled {R}.
Arguments Run {Tree Args}. Arguments Edit {Tree Args}. Arguments Corrupt {Tree Args}.

(* ================================================================ part 2: laze's instance *)
(* A tree assigns a version to every file; [store f v] is the content of version v of file f, so a
   file's (len, mtime) — modelled by the version — determines its content by construction. *)
Definition vtree := list (str * N).
(* the recorded tree state: (len, mtime) — the version — of every loaded file, and the files that
   were looked for and not found (lazefile candidates of imports, fix d85df0c) *)
Definition tstate := (list (str * N) * list str)%type.

Record cargs := {
  ca_bin : N;                                  (* build uuid of the laze binary *)
  ca_le : lazeenv; ca_builders : selector; ca_apps : selector; ca_local : option str;
  ca_select : list str; ca_disable : list str; ca_define : list str;
  ca_partition : option (nat * nat);
  ca_info : bool }.                           (* --info-export: the cache is not read (it is still written) *)

Definition project_file : str := S_ "laze-project.yml".

Definition sel_superset (a b : selector) : bool :=           (* Selector::is_superset *)
  match a, b with
  | SelAll, _ => true
  | SelSome _, SelAll => false
  | SelSome x, SelSome y => forallb (fun n => mem_str n x) y
  end.

Definition list_eqb {A} (eqb : A -> A -> bool) :=
  fix go (a b : list A) : bool :=
    match a, b with
    | [], [] => true
    | x :: a', y :: b' => eqb x y && go a' b'
    | _, _ => false
    end.

Definition envkey_eqb (a b : envkey) : bool :=
  match a, b with
  | Single x, Single y => str_eqb x y
  | EList x, EList y => list_eqb str_eqb x y
  | _, _ => false
  end.
Definition env_sub (a b : env) : bool :=
  forallb (fun kv => match alookup (fst kv) b with Some v => envkey_eqb (snd kv) v | None => false end) a.
(* equal as maps: what comparing the (order-independent) hashes of two Envs decides, up to a
   collision of the 64-bit hash *)
Definition env_same (a b : option env) : bool :=
  match a, b with
  | None, None => true
  | Some x, Some y => env_sub x y && env_sub y x
  | _, _ => false
  end.

Definition sel_same_order (a b : selector) : bool :=
  match a, b with
  | SelAll, SelAll => true
  | SelSome x, SelSome y => list_eqb str_eqb (nodup_str x) (nodup_str y)
  | _, _ => false
  end.

Definition sel_same_set (a b : selector) : bool := sel_superset a b && sel_superset b a.

Definition cli_selects (a : cargs) : res (list dep) := rmapM dependency_from_string (ca_select a).
Definition cli_env (a : cargs) : res (option env) :=
  match ca_define a with
  | [] => Ok None
  | l => rmap Some (fold_left (fun acc x => rbind acc (fun e => assign_from_string e x)) l (Ok []))
  end.
Definition cprecheck (a : cargs) : res unit :=
  rbind (cli_selects a) (fun _ => rbind (cli_env a) (fun _ => Ok tt)).

(* a name that no cached build mentions may be unknown to the project: only regenerating can tell *)
Definition names_known (cached requested : selector) (names : list str) : bool :=
  match cached, requested with
  | SelAll, SelSome l => forallb (fun n => mem_str n names) l
  | _, _ => true
  end.

Definition opt_eqb {A} (eqb : A -> A -> bool) (a b : option A) : bool :=
  match a, b with None, None => true | Some x, Some y => eqb x y | _, _ => false end.

(* GenerateResult::try_from, the conditions on the arguments *)
Definition caccepts (c : cargs) (r : gen_result) (a : cargs) : bool :=
  N.eqb (ca_bin c) (ca_bin a) &&
  opt_eqb (fun x y => Nat.eqb (fst x) (fst y) && Nat.eqb (snd x) (snd y)) (ca_partition c) (ca_partition a) &&
  sel_superset (ca_builders c) (ca_builders a) && sel_superset (ca_apps c) (ca_apps a) &&
  (match ca_partition a with
   | Some _ => sel_same_order (ca_builders c) (ca_builders a) && sel_same_set (ca_apps c) (ca_apps a)
   | None => true end) &&
  names_known (ca_builders c) (ca_builders a) (map bi_builder (gr_builds r)) &&
  names_known (ca_apps c) (ca_apps a) (map bi_binary (gr_builds r)) &&
  (match ca_local a, ca_local c with Some p, Some q => str_eqb p q | _, _ => true end) &&
  list_eqb str_eqb (ca_select c) (ca_select a) &&
  list_eqb str_eqb (ca_disable c) (ca_disable a) &&
  match cli_env c, cli_env a with Ok x, Ok y => env_same x y | _, _ => false end &&
  negb (ca_info a).                           (* try_from: "cache disabled" comes first *)

(* a hit lists the builds in the order a fresh run would: by requested builder *)
Definition cview (a : cargs) (r : gen_result) : gen_result :=
  match ca_builders a with
  | SelAll => r
  | SelSome names =>
      {| gr_stmts := gr_stmts r; gr_file := gr_file r;
         gr_builds := flat_map (fun n => filter (fun b => str_eqb (bi_builder b) n) (gr_builds r)) (nodup_str names);
         gr_nobuilds := gr_nobuilds r |}
  end.

Definition version (t : vtree) (f : str) : N := odflt 0%N (alookup f t).

Definition cts_valid (ts : tstate) (t : vtree) : bool :=
  forallb (fun fv => match alookup (fst fv) t with Some v => N.eqb v (snd fv) | None => false end) (fst ts) &&
  forallb (fun f => match alookup f t with Some _ => false | None => true end) (snd ts).

Section Instance.
  Variable H : list ascii -> N.
  Variable EV : str -> evr.
  Variable bd : str.            (* the build directory; download directories live under it *)
  Variable store : str -> N -> list ydoc.

  Definition ytree_of (t : vtree) : ytree := map (fun fv => (fst fv, store (fst fv) (snd fv))) t.

  Definition loaded_files (t : ytree) : res (list str * list str) :=
    rmap (fun r => (map fst (snd r), absent_of t (fst r)))
         (load_files (load_fuel t) t [(project_file, (None, None))] 0 []).

  Definition cload_ts (t : vtree) : res tstate :=
    rbind (load (ytree_of t) project_file bd) (fun _ =>
    rmap (fun fa => (map (fun f => (f, version t f)) (fst fa), snd fa)) (loaded_files (ytree_of t))).

  Definition cgen (t : vtree) (a : cargs) : res gen_result :=
    rbind (load (ytree_of t) project_file bd) (fun b =>
    rbind (cli_selects a) (fun sel =>
    rbind (cli_env a) (fun cenv =>
    generate H EV b (ca_le a) (ca_builders a) (ca_apps a) (ca_local a)
             (match ca_partition a with Some (m, n) => PCount m n | None => PNone end)
             sel (ca_disable a) cenv))).

  Definition cis_local (a : cargs) : bool := match ca_local a with Some _ => true | None => false end.

  Definition crun := mrun vtree cargs tstate gen_result cprecheck cload_ts cgen cts_valid caccepts cview cis_local.
  Definition cstep := mstep vtree cargs tstate gen_result cprecheck cload_ts cgen cts_valid caccepts cview cis_local.
End Instance.
