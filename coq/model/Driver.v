(* Driver.v — request/reply protocol shared with laze's oracle hook (src/verif_oracle.rs).
   [handle line] computes the model's reply to one request line. This is the only entry
   point the extracted OCaml driver and the vm_compute cross-check use. *)
From Coq Require Import Ascii String.
From Coq Require Import List Arith Bool NArith.
Import ListNotations.
Require Import Laze.model.Base Laze.model.Env Laze.model.Expand Laze.model.Allow.
Open Scope list_scope.

Definition show_err (e : err) : str :=
  match e with
  | EMissing k => S_ "err missing " ++ hex k
  | EUnclosed p => S_ "err unclosed " ++ show_dec p
  | ECycle k => S_ "err cycle " ++ hex k
  | EExpr x => S_ "err expr " ++ hex x
  | EFromMissing _ => S_ "err from-missing"
  | EFromBoth _ => S_ "err from-both"
  | EParse => S_ "err parse"
  | EOther t => S_ "err other " ++ t
  end.

Definition show_res {A} (sh : A -> str) (r : res A) : str :=
  match r with
  | Ok a => sh a
  | Err e => show_err e
  | Panic n => S_ "panic " ++ show_dec n
  | Fuel => S_ "fuel"
  end.

Definition show_ok_str (s : str) : str := S_ "ok " ++ hex s.

Definition show_envkey (v : envkey) : str :=
  match v with
  | Single s => S_ "S " ++ hex s
  | EList l => S_ "L " ++ show_dec (N.of_nat (length l)) ++ flat_map (fun s => " "%char :: hex s) l
  end.
Definition show_env (e : env) : str :=
  flat_map (fun kv => " "%char :: hex (fst kv) ++ " "%char :: show_envkey (snd kv)) (sort_by_key e).
Definition show_fenv (e : fenv) : str :=
  flat_map (fun kv => " "%char :: hex (fst kv) ++ " "%char :: hex (snd kv)) (sort_by_key e).

(* readers *)
Definition rd_envkey : rd (option envkey) := fun ts =>
  match ts with
  | t :: r =>
      if str_eqb t (S_ "-") then Some (None, r)
      else if str_eqb t (S_ "S") then rd_bind rd_s (fun s => rd_ret (Some (Single s))) r
      else if str_eqb t (S_ "L") then rd_bind (rd_list rd_s) (fun l => rd_ret (Some (EList l))) r
      else None
  | [] => None
  end.

Definition rd_kv : rd (str * option envkey) :=
  rd_bind rd_s (fun k => rd_bind rd_envkey (fun v => rd_ret (k, v))).

(* env given as <n> {key envkey}; absent values are skipped; later duplicates replace *)
Definition env_of_kvs (l : list (str * option envkey)) : env :=
  fold_left (fun e kv => match snd kv with Some v => env_insert (fst kv) v e | None => e end) l [].
Definition rd_env : rd env := rd_bind (rd_list rd_kv) (fun l => rd_ret (env_of_kvs l)).

Definition rd_policy : rd policy := fun ts =>
  match ts with
  | t :: r => if str_eqb t (S_ "E") then Some (PError, r)
              else if str_eqb t (S_ "I") then Some (PIgnore, r)
              else if str_eqb t (S_ "D") then Some (PDefer, r)
              else if str_eqb t (S_ "M") then Some (PEmpty, r)
              else None
  | [] => None
  end.

Definition rd_pair : rd (str * str) := rd_bind rd_s (fun k => rd_bind rd_s (fun v => rd_ret (k, v))).

(* table of evalexpr results supplied by the harness (obtained from the real crate through
   the oracle): <n> {expr (ok value | err)} *)
Definition rd_eventry : rd (str * option str) :=
  rd_bind rd_s (fun e => rd_bind rd_raw (fun tag =>
    if str_eqb tag (S_ "ok") then rd_bind rd_s (fun v => rd_ret (e, Some v))
    else if str_eqb tag (S_ "err") then rd_ret (e, None)
    else fun _ => None)).
Definition ev_of_table (tbl : list (str * option str)) (e : str) : option str :=
  match alookup e tbl with Some (Some v) => Some v | _ => None end.
Definition rd_evtable : rd (str -> option str) := fun ts =>
  match ts with
  | [] => Some (ev_of_table [], [])
  | _ => rd_bind (rd_list rd_eventry) (fun tbl => rd_ret (ev_of_table tbl)) ts
  end.

Definition rd_mergeopt : rd (str * mergeopt) :=
  rd_bind rd_s (fun key =>
  rd_bind rd_opt (fun a => rd_bind rd_opt (fun b => rd_bind rd_opt (fun c =>
  rd_bind rd_opt (fun d => rd_bind rd_opt (fun e => rd_bind rd_opt (fun f =>
  rd_ret (key, {| mo_from := a; mo_joiner := b; mo_prefix := c; mo_suffix := d;
                  mo_start := e; mo_end := f |})))))))).

Definition rd_ctx : rd (str * option str) :=
  rd_bind rd_s (fun n => rd_bind rd_opt (fun p => rd_ret (n, p))).

Definition show_blockallow (t : tree) (b : blockallow) : str :=
  let nm i := hex (nth i (t_names t) []) in
  match b with
  | Allowed => S_ "ok allowed"
  | Blocked => S_ "ok blocked"
  | AllowedBy i => S_ "ok allowedby " ++ nm i
  | BlockedBy i => S_ "ok blockedby " ++ nm i
  end.

Definition run {A} (p : rd A) (ts : list str) (k : A -> str) : str :=
  match p ts with Some (a, _) => k a | None => S_ "badrequest" end.

(* Env::expand (the load-time pass), mod.rs: flatten the early values, expand every value
   with the Defer policy *)
Definition expand_envkey (vals : fenv) (v : envkey) : res envkey :=
  match v with
  | Single s => rmap Single (expand vals PDefer s)
  | EList l => rmap EList (rmapM (expand vals PDefer) l)
  end.
Definition env_expand (e : env) (values : env) : res env :=
  let vals := flatten values in
  rmapM (fun kv => rmap (fun v => (fst kv, v)) (expand_envkey vals (snd kv))) e.

Definition handle_oracle (cmd : str) (ts : list str) : option str :=
  if str_eqb cmd (S_ "expand") then
    Some (run (rd_bind rd_policy (fun pol => rd_bind rd_s (fun f => rd_bind (rd_list rd_pair) (fun kv =>
               rd_ret (pol, f, kv))))) ts
              (fun '(pol, f, kv) => show_res show_ok_str (expand kv pol f)))
  else if str_eqb cmd (S_ "expand_eval") then
    Some (run (rd_bind rd_policy (fun pol => rd_bind rd_s (fun f => rd_bind (rd_list rd_pair) (fun kv =>
               rd_bind rd_evtable (fun ev => rd_ret (pol, f, kv, ev)))))) ts
              (fun '(pol, f, kv, ev) => show_res show_ok_str (expand_eval ev kv pol f)))
  else if str_eqb cmd (S_ "eval") then
    Some (run (rd_bind rd_s (fun s => rd_bind rd_evtable (fun ev => rd_ret (s, ev)))) ts
              (fun '(s, ev) => show_res show_ok_str (eval ev s)))
  else if str_eqb cmd (S_ "mergekey") then
    Some (run (rd_list rd_envkey) ts
              (fun layers =>
                 let acc := fold_left (fun e l => merge e (match l with Some v => [(S_ "k", v)] | None => [] end))
                                      layers [] in
                 match env_get (S_ "k") acc with
                 | Some v => S_ "ok " ++ show_envkey v
                 | None => S_ "ok -" end))
  else if str_eqb cmd (S_ "merge") then
    Some (run (rd_list rd_env) ts
              (fun layers => S_ "ok" ++ show_env (fold_left merge layers [])))
  else if str_eqb cmd (S_ "flatten") then
    Some (run (rd_bind (rd_list rd_mergeopt) (fun opts => rd_bind rd_raw (fun useopts =>
               rd_bind rd_env (fun e => rd_ret (opts, useopts, e))))) ts
              (fun '(opts, useopts, e) =>
                 show_res (fun fe => S_ "ok" ++ show_fenv fe)
                   (flatten_with_opts_option (if str_eqb useopts (S_ "opts") then Some opts else None) e)))
  else if str_eqb cmd (S_ "assign") then
    Some (run (rd_list rd_s) ts
              (fun l => show_res (fun e => S_ "ok" ++ show_env e)
                 (fold_left (fun acc a => rbind acc (fun e => assign_from_string e a)) l (Ok []))))
  else if str_eqb cmd (S_ "envexpand") then
    Some (run (rd_bind rd_env (fun e => rd_bind rd_env (fun v => rd_ret (e, v)))) ts
              (fun '(e, v) => show_res (fun e' => S_ "ok" ++ show_env e') (env_expand e v)))
  else if str_eqb cmd (S_ "allowed") then
    Some (run (rd_bind (rd_list rd_ctx) (fun ctxs => rd_bind rd_s (fun b =>
               rd_bind (rd_optlist rd_s) (fun bl => rd_bind (rd_optlist rd_s) (fun al =>
               rd_ret (ctxs, b, bl, al)))))) ts
              (fun '(ctxs, b, bl, al) =>
                 match build_tree ctxs with
                 | inr BDuplicate => S_ "err duplicate"
                 | inr _ => S_ "err finalize"
                 | inl t =>
                     match get_by_name t b with
                     | None => S_ "err nobuilder"
                     | Some ci => show_res (show_blockallow t) (is_allowed t ci bl al)
                     end
                 end))
  else None.

Definition handle (line : str) : str :=
  match tokens line with
  | [] => S_ "badrequest"
  | cmd :: ts => match handle_oracle cmd ts with Some r => r | None => S_ "badrequest" end
  end.
