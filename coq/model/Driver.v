(* Driver.v — request/reply protocol shared with laze's oracle hook (src/verif_oracle.rs).
   [handle line] computes the model's reply to one request line. This is the only entry
   point the extracted OCaml driver and the vm_compute cross-check use. *)
From Coq Require Import Ascii String.
From Coq Require Import List Arith Bool NArith.
Import ListNotations.
Require Import Laze.model.Base Laze.model.Env Laze.model.Expand Laze.model.Allow.
Open Scope list_scope.

Definition show_err (e : err) : str :=
  match e with
  | EMissing k => S_ "err missing " ++ hex k
  | EUnclosed p => S_ "err unclosed " ++ show_dec p
  | ECycle k => S_ "err cycle " ++ hex k
  | ETooDeep k => S_ "err toodeep " ++ hex k
  | EExpr x => S_ "err expr " ++ hex x
  | ENeedEv x => S_ "needev " ++ hex x
  | EFromMissing _ => S_ "err from-missing"
  | EFromBoth _ => S_ "err from-both"
  | EParse => S_ "err parse"
  | EOther t => S_ "err other " ++ t
  end.

Definition show_res {A} (sh : A -> str) (r : res A) : str :=
  match r with
  | Ok a => sh a
  | Err e => show_err e
  | Panic n => S_ "panic " ++ show_dec n
  | Fuel => S_ "fuel"
  end.

Definition show_ok_str (s : str) : str := S_ "ok " ++ hex s.

Definition show_envkey (v : envkey) : str :=
  match v with
  | Single s => S_ "S " ++ hex s
  | EList l => S_ "L " ++ show_dec (N.of_nat (length l)) ++ flat_map (fun s => " "%char :: hex s) l
  end.
Definition show_env (e : env) : str :=
  flat_map (fun kv => " "%char :: hex (fst kv) ++ " "%char :: show_envkey (snd kv)) (sort_by_key e).
Definition show_fenv (e : fenv) : str :=
  flat_map (fun kv => " "%char :: hex (fst kv) ++ " "%char :: hex (snd kv)) (sort_by_key e).

(* readers *)
Definition rd_envkey : rd (option envkey) := fun ts =>
  match ts with
  | t :: r =>
      if str_eqb t (S_ "-") then Some (None, r)
      else if str_eqb t (S_ "S") then rd_bind rd_s (fun s => rd_ret (Some (Single s))) r
      else if str_eqb t (S_ "L") then rd_bind (rd_list rd_s) (fun l => rd_ret (Some (EList l))) r
      else None
  | [] => None
  end.

Definition rd_kv : rd (str * option envkey) :=
  rd_bind rd_s (fun k => rd_bind rd_envkey (fun v => rd_ret (k, v))).

(* env given as <n> {key envkey}; absent values are skipped; later duplicates replace *)
Definition env_of_kvs (l : list (str * option envkey)) : env :=
  fold_left (fun e kv => match snd kv with Some v => env_insert (fst kv) v e | None => e end) l [].
Definition rd_env : rd env := rd_bind (rd_list rd_kv) (fun l => rd_ret (env_of_kvs l)).

Definition rd_policy : rd policy := fun ts =>
  match ts with
  | t :: r => if str_eqb t (S_ "E") then Some (PError, r)
              else if str_eqb t (S_ "I") then Some (PIgnore, r)
              else if str_eqb t (S_ "D") then Some (PDefer, r)
              else if str_eqb t (S_ "M") then Some (PEmpty, r)
              else None
  | [] => None
  end.

Definition rd_pair : rd (str * str) := rd_bind rd_s (fun k => rd_bind rd_s (fun v => rd_ret (k, v))).

(* table of evalexpr results supplied by the harness (obtained from the real crate through
   the oracle): <n> {expr (ok value | err)} *)
Definition rd_eventry : rd (str * option str) :=
  rd_bind rd_s (fun e => rd_bind rd_raw (fun tag =>
    if str_eqb tag (S_ "ok") then rd_bind rd_s (fun v => rd_ret (e, Some v))
    else if str_eqb tag (S_ "err") then rd_ret (e, None)
    else fun _ => None)).
Definition ev_of_table (tbl : list (str * option str)) (e : str) : evr :=
  match alookup e tbl with Some (Some v) => EvOk v | Some None => EvErr | None => EvNeed end.
Definition rd_evtable : rd (str -> evr) := fun ts =>
  match ts with
  | [] => Some (ev_of_table [], [])
  | _ => rd_bind (rd_list rd_eventry) (fun tbl => rd_ret (ev_of_table tbl)) ts
  end.

Definition rd_mergeopt : rd (str * mergeopt) :=
  rd_bind rd_s (fun key =>
  rd_bind rd_opt (fun a => rd_bind rd_opt (fun b => rd_bind rd_opt (fun c =>
  rd_bind rd_opt (fun d => rd_bind rd_opt (fun e => rd_bind rd_opt (fun f =>
  rd_ret (key, {| mo_from := a; mo_joiner := b; mo_prefix := c; mo_suffix := d;
                  mo_start := e; mo_end := f |})))))))).

Definition rd_ctx : rd (str * option str) :=
  rd_bind rd_s (fun n => rd_bind rd_opt (fun p => rd_ret (n, p))).

Definition show_blockallow (t : tree) (b : blockallow) : str :=
  let nm i := hex (nth i (t_names t) []) in
  match b with
  | Allowed => S_ "ok allowed"
  | Blocked => S_ "ok blocked"
  | AllowedBy i => S_ "ok allowedby " ++ nm i
  | BlockedBy i => S_ "ok blockedby " ++ nm i
  end.

Definition run {A} (p : rd A) (ts : list str) (k : A -> str) : str :=
  match p ts with Some (a, _) => k a | None => S_ "badrequest" end.

(* Env::expand (the load-time pass), mod.rs: flatten the early values, expand every value
   with the Defer policy *)
Definition expand_envkey (vals : fenv) (v : envkey) : res envkey :=
  match v with
  | Single s => rmap Single (expand vals PDefer s)
  | EList l => rmap EList (rmapM (expand vals PDefer) l)
  end.
Definition env_expand (e : env) (values : env) : res env :=
  let vals := flatten values in
  rmapM (fun kv => rmap (fun v => (fst kv, v)) (expand_envkey vals (snd kv))) e.

Definition handle_oracle (cmd : str) (ts : list str) : option str :=
  if str_eqb cmd (S_ "expand") then
    Some (run (rd_bind rd_policy (fun pol => rd_bind rd_s (fun f => rd_bind (rd_list rd_pair) (fun kv =>
               rd_ret (pol, f, kv))))) ts
              (fun '(pol, f, kv) => show_res show_ok_str (expand kv pol f)))
  else if str_eqb cmd (S_ "expand_eval") then
    Some (run (rd_bind rd_policy (fun pol => rd_bind rd_s (fun f => rd_bind (rd_list rd_pair) (fun kv =>
               rd_bind rd_evtable (fun ev => rd_ret (pol, f, kv, ev)))))) ts
              (fun '(pol, f, kv, ev) => show_res show_ok_str (expand_eval ev kv pol f)))
  else if str_eqb cmd (S_ "eval") then
    Some (run (rd_bind rd_s (fun s => rd_bind rd_evtable (fun ev => rd_ret (s, ev)))) ts
              (fun '(s, ev) => show_res show_ok_str (eval ev s)))
  else if str_eqb cmd (S_ "mergekey") then
    Some (run (rd_list rd_envkey) ts
              (fun layers =>
                 let acc := fold_left (fun e l => merge e (match l with Some v => [(S_ "k", v)] | None => [] end))
                                      layers [] in
                 match env_get (S_ "k") acc with
                 | Some v => S_ "ok " ++ show_envkey v
                 | None => S_ "ok -" end))
  else if str_eqb cmd (S_ "merge") then
    Some (run (rd_list rd_env) ts
              (fun layers => S_ "ok" ++ show_env (fold_left merge layers [])))
  else if str_eqb cmd (S_ "flatten") then
    Some (run (rd_bind (rd_list rd_mergeopt) (fun opts => rd_bind rd_raw (fun useopts =>
               rd_bind rd_env (fun e => rd_ret (opts, useopts, e))))) ts
              (fun '(opts, useopts, e) =>
                 show_res (fun fe => S_ "ok" ++ show_fenv fe)
                   (flatten_with_opts_option (if str_eqb useopts (S_ "opts") then Some opts else None) e)))
  else if str_eqb cmd (S_ "assign") then
    Some (run (rd_list rd_s) ts
              (fun l => show_res (fun e => S_ "ok" ++ show_env e)
                 (fold_left (fun acc a => rbind acc (fun e => assign_from_string e a)) l (Ok []))))
  else if str_eqb cmd (S_ "envexpand") then
    Some (run (rd_bind rd_env (fun e => rd_bind rd_env (fun v => rd_ret (e, v)))) ts
              (fun '(e, v) => show_res (fun e' => S_ "ok" ++ show_env e') (env_expand e v)))
  else if str_eqb cmd (S_ "allowed") then
    Some (run (rd_bind (rd_list rd_ctx) (fun ctxs => rd_bind rd_s (fun b =>
               rd_bind (rd_optlist rd_s) (fun bl => rd_bind (rd_optlist rd_s) (fun al =>
               rd_ret (ctxs, b, bl, al)))))) ts
              (fun '(ctxs, b, bl, al) =>
                 match build_tree ctxs with
                 | inr BDuplicate => S_ "err duplicate"
                 | inr _ => S_ "err finalize"
                 | inl t =>
                     match get_by_name t b with
                     | None => S_ "err nobuilder"
                     | Some ci => show_res (show_blockallow t) (is_allowed t ci bl al)
                     end
                 end))
  else None.

Definition handle (line : str) : str :=
  match tokens line with
  | [] => S_ "badrequest"
  | cmd :: ts => match handle_oracle cmd ts with Some r => r | None => S_ "badrequest" end
  end.

(* ====================================================================================
   End-to-end requests: a project tree (parsed YAML documents) + a command line. *)
Require Import Laze.model.Path Laze.model.Hash Laze.model.Ninja Laze.model.Ctx Laze.model.Resolver
        Laze.model.Imports Laze.model.Generate Laze.model.Load Laze.model.Checks.

Definition rd_bool : rd bool := fun ts =>
  match ts with
  | t :: r => if str_eqb t (S_ "1") then Some (true, r) else if str_eqb t (S_ "0") then Some (false, r) else None
  | [] => None end.

(* "-" or "+" payload *)
Definition rd_optP {A} (p : rd A) : rd (option A) := fun ts =>
  match ts with
  | t :: r => if str_eqb t (S_ "-") then Some (None, r)
              else if str_eqb t (S_ "+") then rd_bind p (fun a => rd_ret (Some a)) r
              else None
  | [] => None end.

Definition rd_export : rd export_spec := rd_bind rd_s (fun k => rd_bind rd_opt (fun v => rd_ret (k, v))).

Definition rd_rule : rd rule :=
  rd_bind rd_s (fun name => rd_bind rd_s (fun cmd => rd_bind rd_opt (fun i => rd_bind rd_opt (fun o =>
  rd_bind rd_opt (fun gd => rd_bind rd_opt (fun rf => rd_bind rd_opt (fun rc => rd_bind rd_opt (fun pool =>
  rd_bind rd_opt (fun desc => rd_bind (rd_optlist rd_export) (fun ex => rd_bind rd_bool (fun al =>
  rd_bind rd_bool (fun sh =>
  rd_ret {| r_name := name; r_cmd := cmd; r_in := i; r_out := o; r_gcc_deps := gd; r_rspfile := rf;
            r_rspfile_content := rc; r_pool := pool; r_description := desc; r_export := ex;
            r_always := al; r_shareable := sh |})))))))))))).

Definition rd_ytask : rd ytask :=
  rd_bind (rd_list rd_s) (fun cmd => rd_bind (rd_optlist rd_s) (fun rv => rd_bind (rd_optlist rd_s) (fun rm =>
  rd_bind (rd_optlist rd_export) (fun ex => rd_bind rd_bool (fun b => rd_bind rd_opt (fun wd =>
  rd_ret {| yt_cmd := cmd; yt_required_vars := rv; yt_required_modules := rm; yt_export := ex;
            yt_build := b; yt_workdir := wd |})))))).
Definition rd_named_task : rd (str * ytask) := rd_bind rd_s (fun n => rd_bind rd_ytask (fun t => rd_ret (n, t))).

Definition rd_yctx : rd yctx :=
  rd_bind rd_s (fun name => rd_bind rd_opt (fun parent => rd_bind (rd_optP rd_env) (fun e =>
  rd_bind (rd_optlist rd_s) (fun sel => rd_bind (rd_optlist rd_s) (fun dis =>
  rd_bind (rd_optlist rd_s) (fun prov => rd_bind (rd_optlist rd_s) (fun pu =>
  rd_bind (rd_optlist rd_rule) (fun rules => rd_bind (rd_optlist rd_mergeopt) (fun vo =>
  rd_bind (rd_optlist rd_named_task) (fun tasks => rd_bind rd_bool (fun isb =>
  rd_ret {| yc_name := name; yc_parent := parent; yc_env := e; yc_selects := sel; yc_disables := dis;
            yc_provides := prov; yc_provides_unique := pu; yc_rules := rules; yc_var_options := vo;
            yc_tasks := tasks; yc_is_builder := isb |}))))))))))).

Definition rd_keyvals : rd (str * list str) := rd_bind rd_s (fun k => rd_bind (rd_list rd_s) (fun v => rd_ret (k, v))).
Definition rd_depspec : rd depspec := fun ts =>
  match ts with
  | t :: r => if str_eqb t (S_ "S") then rd_bind rd_s (fun s => rd_ret (DStr s)) r
              else if str_eqb t (S_ "M") then rd_bind (rd_list rd_keyvals) (fun kvs => rd_ret (DMap kvs)) r
              else None
  | [] => None end.
Definition rd_ctxspec : rd ctxspec := fun ts =>
  match ts with
  | t :: r => if str_eqb t (S_ "N") then Some (CNone, r)
              else if str_eqb t (S_ "S") then rd_bind rd_s (fun s => rd_ret (CSingle s)) r
              else if str_eqb t (S_ "L") then rd_bind (rd_list rd_s) (fun l => rd_ret (CList l)) r
              else None
  | [] => None end.
Definition rd_custom : rd custom_build :=
  rd_bind rd_opt (fun gd => rd_bind (rd_list rd_s) (fun cmd => rd_bind (rd_optlist rd_s) (fun out =>
  rd_ret {| cb_gcc_deps := gd; cb_cmd := cmd; cb_out := out |}))).

(* download: "-" | "+" ("C" url commit | "U") <optlist patches> <opt dldir> *)
Definition rd_download : rd download :=
  rd_bind rd_raw (fun k =>
  rd_bind (if str_eqb k (S_ "C") then rd_bind rd_s (fun u => rd_bind rd_s (fun c => rd_ret (DlGitCommit u c)))
           else rd_ret DlUnsupported) (fun src =>
  rd_bind (rd_optlist rd_s) (fun patches => rd_bind rd_opt (fun dldir =>
  rd_ret {| dl_source_of := src; dl_patches := patches; dl_dldir := dldir |})))).

Definition rd_ymod : rd ymod :=
  rd_bind rd_opt (fun name => rd_bind rd_ctxspec (fun ctx =>
  rd_bind (rd_optlist rd_depspec) (fun depends => rd_bind (rd_optlist rd_depspec) (fun selects =>
  rd_bind (rd_optlist rd_s) (fun uses => rd_bind (rd_optlist rd_s) (fun prov =>
  rd_bind (rd_optlist rd_s) (fun pu => rd_bind (rd_optlist rd_s) (fun confl =>
  rd_bind rd_bool (fun na => rd_bind (rd_optlist rd_depspec) (fun sources =>
  rd_bind (rd_optlist rd_named_task) (fun tasks => rd_bind (rd_optP rd_custom) (fun build =>
  rd_bind (rd_optP rd_env) (fun el => rd_bind (rd_optP rd_env) (fun ee => rd_bind (rd_optP rd_env) (fun eg =>
  rd_bind (rd_optlist rd_s) (fun bl => rd_bind (rd_optlist rd_s) (fun al =>
  rd_bind rd_opt (fun srcdir => rd_bind rd_bool (fun ibd => rd_bind rd_bool (fun igbd =>
  rd_bind (rd_optP rd_download) (fun dl =>
  rd_ret {| ym_name := name; ym_context := ctx; ym_depends := depends; ym_selects := selects; ym_uses := uses;
            ym_provides := prov; ym_provides_unique := pu; ym_conflicts := confl; ym_notify_all := na;
            ym_sources := sources; ym_tasks := tasks; ym_build := build; ym_env_local := el;
            ym_env_export := ee; ym_env_global := eg; ym_blocklist := bl; ym_allowlist := al;
            ym_srcdir := srcdir; ym_is_build_dep := ibd; ym_is_global_build_dep := igbd;
            ym_download := dl |}))))))))))))))))))))).

(* modules:/apps: key:  "-" absent, "0" present but null, "+" list *)
Definition rd_modlist : rd (option (option (list ymod))) := fun ts =>
  match ts with
  | t :: r => if str_eqb t (S_ "-") then Some (None, r)
              else if str_eqb t (S_ "0") then Some (Some None, r)
              else if str_eqb t (S_ "+") then rd_bind (rd_list rd_ymod) (fun l => rd_ret (Some (Some l))) r
              else None
  | [] => None end.

Definition rd_ydoc : rd ydoc :=
  rd_bind (rd_optlist rd_yctx) (fun cs => rd_bind (rd_optlist rd_yctx) (fun bs =>
  rd_bind rd_modlist (fun ms => rd_bind rd_modlist (fun apps =>
  rd_bind (rd_optlist rd_s) (fun inc => rd_bind (rd_optlist rd_s) (fun sub =>
  rd_bind (rd_optP rd_ymod) (fun dm => rd_bind (rd_optP rd_ymod) (fun da =>
  rd_bind (rd_optlist rd_s) (fun imp =>
  rd_ret {| d_contexts := cs; d_builders := bs; d_modules := ms; d_apps := apps; d_includes := inc;
            d_subdirs := sub; d_defaults_module := dm; d_defaults_app := da; d_imports := imp |}))))))))).

Definition rd_yfile : rd (str * list ydoc) := rd_bind rd_s (fun f => rd_bind (rd_list rd_ydoc) (fun ds => rd_ret (f, ds))).
Definition rd_ytree : rd ytree := rd_list rd_yfile.

Definition rd_selector : rd selector := fun ts =>
  match ts with
  | t :: r => if str_eqb t (S_ "*") then Some (SelAll, r)
              else rd_bind (rd_list rd_s) (fun l => rd_ret (SelSome l)) ts
  | [] => None end.

Record cli := {
  cl_le : lazeenv; cl_builders : selector; cl_apps : selector; cl_local : option str;
  cl_select : list str; cl_disable : list str; cl_define : list str;
  cl_partition : option (bool * N * N) }.   (* (is_count, m, n) *)

Definition rd_partition : rd (option (bool * N * N)) := fun ts =>
  match ts with
  | t :: r => if str_eqb t (S_ "-") then Some (None, r)
              else if str_eqb t (S_ "count") then rd_bind rd_n (fun m => rd_bind rd_n (fun n => rd_ret (Some (true, m, n)))) r
              else None
  | [] => None end.

Definition rd_cli : rd cli :=
  rd_bind rd_s (fun bd => rd_bind rd_s (fun pr => rd_bind rd_s (fun lb =>
  rd_bind rd_selector (fun bs => rd_bind rd_selector (fun apps => rd_bind rd_opt (fun local =>
  rd_bind (rd_list rd_s) (fun sel => rd_bind (rd_list rd_s) (fun dis => rd_bind (rd_list rd_s) (fun def =>
  rd_bind rd_partition (fun part =>
  rd_ret {| cl_le := {| le_build_dir := bd; le_project_root := pr; le_laze_bin := lb |};
            cl_builders := bs; cl_apps := apps; cl_local := local; cl_select := sel; cl_disable := dis;
            cl_define := def; cl_partition := part |})))))))))).

(* main.rs: --select strings -> dependencies; -D assignments -> env *)
Definition cli_selects (c : cli) : res (list dep) := rmapM dependency_from_string (cl_select c).
Definition cli_env (c : cli) : res (option env) :=
  match cl_define c with
  | [] => Ok None
  | l => rmap Some (fold_left (fun acc a => rbind acc (fun e => assign_from_string e a)) l (Ok []))
  end.

Definition show_list (l : list str) : str :=
  show_dec (N.of_nat (length l)) ++ flat_map (fun s => " "%char :: hex s) l.

Definition show_nobuild (w : nobuild) : str :=
  match w with NotAllowed => S_ "notallowed" | NotAncestor => S_ "notancestor" | Shadowed => S_ "shadowed"
             | Unresolved => S_ "unresolved" | BuildDepCycle => S_ "cycle" end.

Definition show_build_info (i : build_info) : str :=
  S_ " B " ++ hex (bi_builder i) ++ S_ " " ++ hex (bi_binary i) ++ S_ " " ++ hex (bi_out i) ++ S_ " " ++
  show_list (bi_modules i) ++ S_ " " ++ show_list (bi_build_order i) ++ S_ " " ++
  show_dec (N.of_nat (length (bi_tasks i))) ++
  flat_map (fun nt => " "%char :: hex (fst nt) ++
                      match snd nt with
                      | inl t => S_ " ok " ++ show_list (t_cmd t) ++ S_ " " ++
                                 show_list (flat_map (fun e : export_spec => [fst e; odflt [] (snd e)]) (odflt [] (t_export t))) ++
                                 S_ " " ++ match t_workdir t with Some w => hex w | None => S_ "-" end
                      | inr _ => S_ " err" end)
           (sort_by_key (bi_tasks i)).

Definition show_gen (g : gen_result) : str :=
  S_ "ok " ++ show_dec (N.of_nat (length (gr_builds g))) ++ flat_map show_build_info (gr_builds g) ++
  S_ " N " ++ show_dec (N.of_nat (length (gr_nobuilds g))) ++
  flat_map (fun x => S_ " " ++ hex (fst (fst x)) ++ S_ " " ++ hex (snd (fst x)) ++ S_ " " ++ show_nobuild (snd x))
           (gr_nobuilds g) ++
  S_ " W " ++ (if wf_manifestb (gr_stmts g) (map bi_out (gr_builds g)) then S_ "1" else S_ "0") ++
  S_ " F " ++ hex (gr_file g).

(* the count: partitioner of task_partitioner: the k-th (1-based) of n takes items i with i mod n = k-1 *)
Definition run_gen (EVt : str -> evr) (t : ytree) (c : cli) : res gen_result :=
  rbind (load t (S_ "laze-project.yml") (le_build_dir (cl_le c))) (fun b =>
  rbind (cli_selects c) (fun sel =>
  rbind (cli_env c) (fun cenv =>
  generate siphash13 EVt b (cl_le c) (cl_builders c) (cl_apps c) (cl_local c)
           (match cl_partition c with Some (_, m, n) => PCount (N.to_nat m) (N.to_nat n) | None => PNone end)
           sel (cl_disable c) cenv))).

Definition handle_e2e (cmd : str) (ts : list str) : option str :=
  if str_eqb cmd (S_ "gen") then
    Some (run (rd_bind rd_ytree (fun t => rd_bind rd_cli (fun c => rd_bind rd_evtable (fun ev => rd_ret (t, c, ev))))) ts
              (fun '(t, c, ev) => show_res show_gen (run_gen ev t c)))
  else if str_eqb cmd (S_ "hashbytes") then
    Some (run rd_s ts (fun s => S_ "ok " ++ show_dec (siphash13 s)))
  else if str_eqb cmd (S_ "hashpaths") then
    Some (run (rd_list rd_s) ts (fun l => S_ "ok " ++ show_dec (hash_paths l)))
  else if str_eqb cmd (S_ "path") then
    Some (run (rd_bind rd_raw (fun op => rd_bind (rd_list rd_s) (fun args => rd_ret (op, args)))) ts
              (fun '(op, args) =>
                 let a := nth 0 args [] in let b := nth 1 args [] in
                 if str_eqb op (S_ "push") then S_ "ok " ++ hex (path_push a b)
                 else if str_eqb op (S_ "ext") then S_ "ok " ++ match extension a with Some e => hex e | None => S_ "-" end
                 else if str_eqb op (S_ "withext") then S_ "ok " ++ hex (with_extension a b)
                 else if str_eqb op (S_ "parent") then S_ "ok " ++ hex (parent a)
                 else if str_eqb op (S_ "startswith") then S_ "ok " ++ (if path_starts_with a b then S_ "1" else S_ "0")
                 else if str_eqb op (S_ "sort") then S_ "ok " ++ show_list (sort_paths args)
                 else if str_eqb op (S_ "ncomp") then S_ "ok " ++ show_dec (N.of_nat (length (components a)))
                 else if str_eqb op (S_ "stripprefix") then S_ "ok " ++ match strip_prefix a b with Some e => S_ "+" ++ hex e | None => S_ "-" end
                 else if str_eqb op (S_ "patheq") then S_ "ok " ++ (if path_eq a b then S_ "1" else S_ "0")
                 else S_ "badrequest"))
  else None.

Definition handle2 (line : str) : str :=
  match tokens line with
  | [] => S_ "badrequest"
  | cmd :: ts =>
      match handle_oracle cmd ts with
      | Some r => r
      | None => match handle_e2e cmd ts with Some r => r | None => S_ "badrequest" end
      end
  end.

(* ---------- property checkers applied to the implementation's outputs ---------- *)
Require Import Laze.model.Checks.

Definition find_binary (b : bag) (builder : nat) (app : str) : option module :=
  (* the binary of that name that the builder sees: the nearest definition up its chain (an app of the same
     name further up is shadowed and not built, fix 94ae0f6); otherwise the first in bag order whose context is
     the builder or an ancestor *)
  match (match resolve_module b builder app with
         | Some m => if m_is_binary m then Some m else None
         | None => None end) with
  | Some m => Some m
  | None =>
  find (fun m => str_eqb (m_name m) app &&
                 match m_context_id m with
                 | Some ci => match is_ancestor (tree_fuel (bag_tree b)) (bag_tree b) ci builder 0 with
                              | Ok (Some _) => true | _ => false end
                 | None => false end) (binaries b)
  end.

Definition check_modules (t : ytree) (c : cli) (builder app : str) (names : list str) : res (bool * bool * bool) :=
  rbind (load t (S_ "laze-project.yml") (le_build_dir (cl_le c))) (fun b =>
  rbind (cli_selects c) (fun sel =>
  match bag_index b builder with
  | None => Err (EOther (S_ "nobuilder"))
  | Some bi =>
      match find_binary b bi app with
      | None => Err (EOther (S_ "noapp"))
      | Some bin =>
          let app' := build_binary bin builder sel in
          let ms := modules_by_name b bi app' names in
          let d0 := fold_left (fun a x => iset_insert x a) (cl_disable c) (collect_disabled b bi) in
          Ok (closedb ms, exclusiveb d0 ms,
              keys_okb b && prov_okb b bi && app_okb b bi bin)
      end
  end)).

Definition handle_checks (cmd : str) (ts : list str) : option str :=
  if str_eqb cmd (S_ "checkmods") then
    Some (run (rd_bind rd_ytree (fun t => rd_bind rd_cli (fun c => rd_bind rd_s (fun bn => rd_bind rd_s (fun app =>
               rd_bind (rd_list rd_s) (fun names => rd_ret (t, c, bn, app, names))))))) ts
              (fun '(t, c, bn, app, names) =>
                 show_res (fun r : bool * bool * bool =>
                             S_ "ok " ++ (if fst (fst r) then S_ "1" else S_ "0") ++ S_ " " ++
                             (if snd (fst r) then S_ "1" else S_ "0") ++ S_ " " ++ (if snd r then S_ "1" else S_ "0"))
                          (check_modules t c bn app names)))
  else None.

Definition handle3 (line : str) : str :=
  match tokens line with
  | [] => S_ "badrequest"
  | cmd :: ts =>
      match handle_oracle cmd ts with
      | Some r => r
      | None => match handle_e2e cmd ts with
                | Some r => r
                | None => match handle_checks cmd ts with Some r => r | None => S_ "badrequest" end
                end
      end
  end.

(* ---------- C05 support: per build and module, the names of imports_postorder ---------- *)
Definition imports_of_build (b : bag) (bi : nat) (bname : str) (bin : module) (cli_sel : list dep) (disable : list str)
  : option (list (str * list str)) :=
  let d0 := fold_left (fun a x => iset_insert x a) disable (collect_disabled b bi) in
  match resolve_build b bi bname bin cli_sel d0 with
  | Ok rst => Some (map (fun m => (m_name m, map m_name (imports_postorder (Resolver.sel rst) (provby rst) m))) (Resolver.sel rst))
  | _ => None
  end.

Definition show_imports (l : list (str * list str)) : str :=
  show_dec (N.of_nat (length l)) ++ flat_map (fun kv => S_ " " ++ hex (fst kv) ++ S_ " " ++ show_list (snd kv)) l.

Definition handle_imports (cmd : str) (ts : list str) : option str :=
  if str_eqb cmd (S_ "imports") then
    Some (run (rd_bind rd_ytree (fun t => rd_bind rd_cli (fun c => rd_bind rd_s (fun bn => rd_bind rd_s (fun app =>
               rd_ret (t, c, bn, app)))))) ts
              (fun '(t, c, bn, app) =>
                 show_res (fun x => x)
                   (rbind (load t (S_ "laze-project.yml") (le_build_dir (cl_le c))) (fun b =>
                    rbind (cli_selects c) (fun sel =>
                    match bag_index b bn with
                    | None => Err (EOther (S_ "nobuilder"))
                    | Some bi => match find_binary b bi app with
                                 | None => Err (EOther (S_ "noapp"))
                                 | Some bin => match imports_of_build b bi bn bin sel (cl_disable c) with
                                               | Some l => Ok (S_ "ok " ++ show_imports l)
                                               | None => Err (EOther (S_ "unresolved")) end
                                 end
                    end)))))
  else None.

Definition handle4 (line : str) : str :=
  match tokens line with
  | [] => S_ "badrequest"
  | cmd :: ts =>
      match handle_imports cmd ts with
      | Some r => r
      | None => handle3 line
      end
  end.

(* ---------- `laze build [task]` after generation: ninja argv, executed tasks, exit code ---------- *)
Require Import Laze.model.Tasks.

Definition rd_optnat : rd (option nat) := fun ts =>
  match ts with
  | t :: r => if str_eqb t (S_ "-") then Some (None, r)
              else match parse_dec t with Some n => Some (Some (N.to_nat n), r) | None => None end
  | [] => None end.

(* <task|-> <generate_only> <multiple> <keep_going> <jobs|-> <verbose> <ninja_ok 0|1> <nfail> {builder app} *)
Record main_req := {
  mr_task : option str; mr_generate_only : bool; mr_multiple : bool; mr_keep_going : nat;
  mr_jobs : option nat; mr_verbose : nat; mr_ninja_ok : bool; mr_failing : list (str * str) }.

Definition rd_main_req : rd main_req :=
  rd_bind rd_opt (fun task => rd_bind rd_bool (fun go => rd_bind rd_bool (fun mult => rd_bind rd_n (fun kg =>
  rd_bind rd_optnat (fun jobs => rd_bind rd_n (fun verb => rd_bind rd_bool (fun nok =>
  rd_bind (rd_list rd_pair) (fun failing =>
  rd_ret {| mr_task := task; mr_generate_only := go; mr_multiple := mult; mr_keep_going := N.to_nat kg;
            mr_jobs := jobs; mr_verbose := N.to_nat verb; mr_ninja_ok := nok; mr_failing := failing |})))))))).

Definition show_action (a : action) : str :=
  match a with
  | ANinja argv => S_ " N " ++ show_list argv
  | ATask b app => S_ " T " ++ hex b ++ S_ " " ++ hex app
  end.

Definition handle_main (cmd : str) (ts : list str) : option str :=
  if str_eqb cmd (S_ "main") then
    Some (run (rd_bind rd_ytree (fun t => rd_bind rd_cli (fun c => rd_bind rd_main_req (fun m =>
               rd_bind rd_evtable (fun ev => rd_ret (t, c, m, ev)))))) ts
              (fun '(t, c, m, ev) =>
                 show_res (fun x => x)
                   (rbind (run_gen ev t c) (fun g =>
                    let file := path_push (le_build_dir (cl_le c))
                                  (match cl_local c with Some _ => S_ "build-local.ninja" | None => S_ "build-global.ninja" end) in
                    let mc := {| mc_builders := cl_builders c; mc_apps := cl_apps c; mc_task := mr_task m;
                                 mc_generate_only := mr_generate_only m; mc_multiple := mr_multiple m;
                                 mc_keep_going := mr_keep_going m; mc_jobs := mr_jobs m; mc_verbose := mr_verbose m |} in
                    let o := main_after_generate (fun _ => mr_ninja_ok m)
                               (fun b a => negb (existsb (fun p => str_eqb (fst p) b && str_eqb (snd p) a) (mr_failing m)))
                               (gr_builds g) file mc in
                    Ok (S_ "ok " ++ show_dec (N.of_nat (o_exit o)) ++ S_ " " ++ show_dec (N.of_nat (length (o_actions o))) ++
                        flat_map show_action (o_actions o))))))
  else None.

(* clean <build_dir> <local 0|1> <verbose 0|1> <unused 0|1> <ninja_ok 0|1> *)
Definition handle_clean (cmd : str) (ts : list str) : option str :=
  if str_eqb cmd (S_ "clean") then
    Some (run (rd_bind rd_s (fun bd => rd_bind rd_bool (fun loc => rd_bind rd_bool (fun v => rd_bind rd_bool (fun u =>
               rd_bind rd_bool (fun nok => rd_ret (bd, loc, v, u, nok))))))) ts
              (fun '(bd, loc, v, u, nok) =>
                 let file := path_push bd (if loc then S_ "build-local.ninja" else S_ "build-global.ninja") in
                 let o := main_clean (fun _ => nok) file v u in
                 S_ "ok " ++ show_dec (N.of_nat (o_exit o)) ++ S_ " " ++ show_dec (N.of_nat (length (o_actions o))) ++
                 flat_map show_action (o_actions o)))
  else None.

Definition handle5 (line : str) : str :=
  match tokens line with
  | [] => S_ "badrequest"
  | cmd :: ts => match handle_main cmd ts with
                 | Some r => r
                 | None => match handle_clean cmd ts with Some r => r | None => handle4 line end
                 end
  end.

(* ---------- histories of runs, edits and kills against the cache machine (Cache.v) ---------- *)
Require Import Laze.model.Cache.

Definition cargs_of (bin : N) (info : bool) (c : cli) : cargs :=
  {| ca_bin := bin; ca_le := cl_le c; ca_builders := cl_builders c; ca_apps := cl_apps c; ca_local := cl_local c;
     ca_select := cl_select c; ca_disable := cl_disable c; ca_define := cl_define c;
     ca_partition := match cl_partition c with Some (_, m, n) => Some (N.to_nat m, N.to_nat n) | None => None end;
     ca_info := info |}.

Definition rd_vtree : rd vtree := rd_list (rd_bind rd_s (fun f => rd_bind rd_n (fun v => rd_ret (f, v)))).
Definition rd_store : rd (list (str * N * list ydoc)) :=
  rd_list (rd_bind rd_s (fun f => rd_bind rd_n (fun v => rd_bind (rd_list rd_ydoc) (fun ds => rd_ret (f, v, ds))))).
Definition store_of (l : list (str * N * list ydoc)) (f : str) (v : N) : list ydoc :=
  match find (fun x => str_eqb (fst (fst x)) f && N.eqb (snd (fst x)) v) l with Some x => snd x | None => [] end.

Inductive hop := HRun (a : cargs) (stop : nat) (m : main_req) | HEdit (t : vtree) | HCorrupt (l : bool).
Definition rd_hop : rd hop := fun ts =>
  match ts with
  | t :: r =>
      if str_eqb t (S_ "R") then
        rd_bind rd_n (fun bin => rd_bind rd_n (fun stop => rd_bind rd_bool (fun info => rd_bind rd_cli (fun c => rd_bind rd_main_req (fun m =>
          rd_ret (HRun (cargs_of bin info c) (N.to_nat stop) m)))))) r
      else if str_eqb t (S_ "E") then rd_bind rd_vtree (fun t => rd_ret (HEdit t)) r
      else if str_eqb t (S_ "C") then rd_bind rd_bool (fun l => rd_ret (HCorrupt l)) r
      else None
  | [] => None end.

Definition show_nfile (n : nfile gen_result) : str :=
  match n with NAbsent => S_ "A" | NPartial => S_ "P" | NComplete r => S_ "C" ++ show_dec (siphash13 (gr_file r)) end.

Definition main_outcome (a : cargs) (m : main_req) (g : gen_result) : str :=
  let file := path_push (le_build_dir (ca_le a))
                (match ca_local a with Some _ => S_ "build-local.ninja" | None => S_ "build-global.ninja" end) in
  let mc := {| mc_builders := ca_builders a; mc_apps := ca_apps a; mc_task := mr_task m;
               mc_generate_only := mr_generate_only m; mc_multiple := mr_multiple m;
               mc_keep_going := mr_keep_going m; mc_jobs := mr_jobs m; mc_verbose := mr_verbose m |} in
  let o := main_after_generate (fun _ => mr_ninja_ok m)
             (fun b x => negb (existsb (fun p => str_eqb (fst p) b && str_eqb (snd p) x) (mr_failing m)))
             (gr_builds g) file mc in
  show_dec (N.of_nat (o_exit o)) ++ S_ " " ++ show_dec (N.of_nat (length (o_actions o))) ++ flat_map show_action (o_actions o).

(* one line per history: for every op  "| <H|G|F|K|E> <ninja A|P|C<hash>> <cache 0|1> [exit nactions actions] [X <file>]" *)
Fixpoint run_hist (EVt : str -> evr) (bd : str) (st : str -> N -> list ydoc) (w : world vtree cargs tstate gen_result)
         (ops : list hop) : res str :=
  match ops with
  | [] => Ok []
  | HEdit t :: rest =>
      rmap (fun s => S_ " | E" ++ s)
           (run_hist EVt bd st (cstep siphash13 EVt bd st w (Edit t)) rest)
  | HCorrupt l :: rest =>
      rmap (fun s => S_ " | E" ++ s)
           (run_hist EVt bd st (cstep siphash13 EVt bd st w (Corrupt l)) rest)
  | HRun a k m :: rest =>
      let '(w', o) := crun siphash13 EVt bd st a k w in
      let sl := get_slot _ _ _ _ w' (cis_local a) in
      let state := S_ " " ++ show_nfile (s_ninja _ _ _ sl) ++
                   (match s_cache _ _ _ sl with Some _ => S_ " 1" | None => S_ " 0" end) in
      match o with
      | OFail (FErr (ENeedEv e)) => Err (ENeedEv e)
      | OFail (FPanic n) => Panic n
      | OFail FFuel => Fuel
      | OFail (FErr _) => rmap (fun s => S_ " | F" ++ state ++ s) (run_hist EVt bd st w' rest)
      | OKilled => rmap (fun s => S_ " | K" ++ state ++
                                  (match s_ninja _ _ _ sl with NComplete g => S_ " X " ++ hex (gr_file g) | _ => [] end) ++ s)
                        (run_hist EVt bd st w' rest)
      | OHit g => rmap (fun s => S_ " | H" ++ state ++ S_ " " ++ main_outcome a m g ++ s) (run_hist EVt bd st w' rest)
      | ORegen g => rmap (fun s => S_ " | G" ++ state ++ S_ " " ++ main_outcome a m g ++ S_ " X " ++ hex (gr_file g) ++ s)
                         (run_hist EVt bd st w' rest)
      end
  end.

Definition handle_hist (cmd : str) (ts : list str) : option str :=
  if str_eqb cmd (S_ "hist") then
    Some (run (rd_bind rd_s (fun bd => rd_bind rd_store (fun st => rd_bind rd_vtree (fun t0 => rd_bind (rd_list rd_hop) (fun ops =>
               rd_bind rd_evtable (fun ev => rd_ret (bd, st, t0, ops, ev))))))) ts
              (fun '(bd, st, t0, ops, ev) =>
                 (* side condition of C08_hit_is_fresh, evaluated for every tree of the history:
                    the loaded contexts have distinct names *)
                 let trees := t0 :: flat_map (fun o => match o with HEdit t => [t] | _ => [] end) ops in
                 let names_ok := forallb (fun t => match load (ytree_of (store_of st) t) project_file bd with
                                                   | Ok b => list_eqb str_eqb (nodup_str (bag_names b)) (bag_names b)
                                                   | _ => true end) trees in
                 show_res (fun s => S_ "ok" ++ (if names_ok then S_ " D1" else S_ " D0") ++ s)
                          (run_hist ev bd (store_of st) (fresh _ _ _ _ t0) ops)))
  else None.

Definition handle6 (line : str) : str :=
  match tokens line with
  | [] => S_ "badrequest"
  | cmd :: ts => match handle_hist cmd ts with Some r => r | None => handle5 line end
  end.
