(* Checks.v — executable (boolean) versions of the properties and of the theorems' side
   conditions. Extracted with the model; the harness applies them to the implementation's
   outputs when it searches for a failing input, and to every generated project to measure
   that the hypotheses of the theorems are met. Their specifications are in proofs/. *)
From Coq Require Import Ascii String.
From Coq Require Import List Arith Bool NArith.
Import ListNotations.
Require Import Laze.model.Base Laze.model.Env Laze.model.Allow Laze.model.Ninja Laze.model.Ctx
        Laze.model.Resolver.
Open Scope list_scope.

(* --- bag well-formedness --- *)
Definition keys_okb (b : bag) : bool :=
  forallb (fun c => forallb (fun km => str_eqb (m_name (snd km)) (fst km)) (c_modules c)) b.

Definition provided_of (b : bag) (builder : nat) : str -> option (list str) :=
  fun n => match bag_get b builder with
           | Some c => match c_provided c with Some p => alookup n p | None => None end
           | None => None end.

Definition prov_okb (b : bag) (builder : nat) : bool :=
  match bag_get b builder with
  | Some c =>
      forallb (fun kv =>
                 match alookup (fst kv) (odflt [] (c_provided c)) with
                 | Some ps => forallb (fun p => match resolve_module b builder p with
                                                | Some mp => mem_str (fst kv) (provides_of mp)
                                                | None => false end) ps
                 | None => true end)
              (odflt [] (c_provided c))
  | None => true
  end.

Fixpoint list_str_eqb (a b : list str) : bool :=
  match a, b with
  | [], [] => true
  | x :: a', y :: b' => str_eqb x y && list_str_eqb a' b'
  | _, _ => false
  end.

Definition app_okb (b : bag) (builder : nat) (binary : module) : bool :=
  match resolve_module b builder (m_name binary) with
  | Some a0 => list_str_eqb (provides_of a0) (provides_of binary)
  | None => true
  end.

(* --- C01: closure of a list of modules --- *)
Definition sel_names (ms : list module) : list str := map m_name ms.
Definition satb (ms : list module) (n : str) : bool :=
  mem_str n (sel_names ms) || existsb (fun p => mem_str n (provides_of p)) ms.
Definition closed_depb (ms : list module) (d : dep) : bool :=
  match d with
  | Hard n => satb ms n
  | IfThenHard o n => negb (mem_str o (sel_names ms)) || satb ms n
  | _ => true
  end.
Definition closedb (ms : list module) : bool :=
  forallb (fun x => forallb (closed_depb ms) (m_selects x)) ms.

(* --- C02: exclusion --- *)
(* no selected module is named in / provides a disabled name; no selected module lists another
   selected module, or a name another selected module provides, under conflicts *)
Definition exclusiveb (disabled0 : list str) (ms : list module) : bool :=
  forallb (fun m => negb (mem_str (m_name m) disabled0)
                    && forallb (fun x => negb (mem_str x disabled0)) (provides_of m)) ms
  && forallb (fun a => forallb (fun x =>
        forallb (fun b' => str_eqb (m_name a) (m_name b')
                           || (negb (str_eqb x (m_name b')) && negb (mem_str x (provides_of b')))) ms)
        (conflicts_of a)) ms.

(* modules of a build as the implementation reports them (by name): the app clone, and for
   every other name the nearest definition seen from the builder *)
Definition modules_by_name (b : bag) (builder : nat) (app : module) (names : list str) : list module :=
  flat_map (fun n => if str_eqb n (m_name app) then [app]
                     else match resolve_module b builder n with Some m => [m] | None => [] end) names.

(* ---------- C06: the manifest as a build graph ---------- *)
Require Import Laze.model.Path Laze.model.Hash.

Fixpoint no_dup_strb (l : list str) : bool :=
  match l with [] => true | x :: t => negb (mem_str x t) && no_dup_strb t end.

Definition stmt_outs (s : stmt) : list str := match s with SBuild b => nb_outs b | SRule _ => [] end.
Definition stmt_rule_name (s : stmt) : list str := match s with SRule r => [nr_name r] | SBuild _ => [] end.

(* every build statement references phony or a rule defined earlier in the list *)
Fixpoint rules_before_useb (defined : list str) (l : list stmt) : bool :=
  match l with
  | [] => true
  | SRule r :: t => rules_before_useb (nr_name r :: defined) t
  | SBuild b :: t => (str_eqb (nb_rule b) (S_ "phony") || mem_str (nb_rule b) defined) && rules_before_useb defined t
  end.

Definition wf_manifestb (stmts : list stmt) (required_outs : list str) : bool :=
  no_dup_strb (S_ "ALWAYS" :: flat_map stmt_outs stmts)               (* one statement per output *)
  && no_dup_strb (flat_map stmt_rule_name stmts)                      (* every rule defined once *)
  && rules_before_useb [] stmts                                       (* defined (or phony) before use *)
  && forallb (fun o => mem_str o (flat_map stmt_outs stmts)) required_outs   (* app outputs are targets *)
  && forallb (fun s => match s with SBuild b => negb (match nb_outs b with [] => true | _ => false end) | _ => true end) stmts.

(* ---------- C07: sharing ---------- *)
(* compile statements: exactly one input, a non-phony rule *)
Definition is_compile (s : stmt) : option nbuild :=
  match s with
  | SBuild b => match nb_inputs b with
                | Some [_] => if str_eqb (nb_rule b) (S_ "phony") then None else Some b
                | _ => None end
  | SRule _ => None
  end.
