(* Imports.v — mirrors src/model/module.rs: get_imports_recursive, build_env,
   create_module_define. Definitions only. *)
From Coq Require Import Ascii String.
From Coq Require Import List Arith Bool NArith.
Import ListNotations.
Require Import Laze.model.Base Laze.model.Env Laze.model.Allow Laze.model.Ninja Laze.model.Ctx Laze.model.Resolver.
Open Scope list_scope.

Definition find_sel (n : str) (ms : list module) : option module :=
  find (fun m => str_eqb n (m_name m)) ms.

(* the name an import refers to, if it is active *)
Definition import_target (ms : list module) (d : dep) : option str :=
  match d with
  | Hard n | Soft n => Some n
  | IfThenHard o n | IfThenSoft o n => match find_sel o ms with Some _ => Some n | None => None end
  end.

(* get_imports_recursive: DFS over imports with a shared `seen` set; dependencies first,
   the module itself last. [ms] = selected modules, [provs] = resolver's provided_by. *)
Fixpoint imports_rec (fuel : nat) (ms : list module) (provs : list (str * list module))
         (seen : list str) (m : module) : list module * list str :=
  match fuel with
  | O => ([], seen)
  | S f =>
      if mem_str (m_name m) seen then ([], seen)
      else
        let seen0 := m_name m :: seen in
        let visit (acc : list module * list str) (x : module) :=
          let '(r, s) := imports_rec f ms provs (snd acc) x in (fst acc ++ r, s) in
        let step (acc : list module * list str) (d : dep) :=
          match import_target ms d with
          | None => acc
          | Some n =>
              let acc1 := match find_sel n ms with Some other => visit acc other | None => acc end in
              fold_left visit (get_list n provs) acc1
          end in
        let '(res, seen1) := fold_left step (m_imports m) ([], seen0) in
        (res ++ [m], seen1)
  end.

Definition imports_postorder (ms : list module) (provs : list (str * list module)) (m : module) : list module :=
  fst (imports_rec (S (length ms)) ms provs [] m).

(* create_module_define *)
Definition define_char (c : ascii) : ascii :=
  let n := N_of_ascii c in
  if N.leb 97 n && N.leb n 122 then ascii_of_N (n - 32)
  else if N.eqb n 47 || N.eqb n 46 || N.eqb n 45 || N.eqb n 58 then "_"%char
  else c.
Definition module_define (m : module) : str := map define_char (m_name m).

Definition is_context_module (m : module) : bool := is_prefix (S_ "context::") (m_name m).
Definition module_eqb (a b : module) : bool :=
  str_eqb (m_name a) (m_name b) && str_eqb (m_context_name a) (m_context_name b).

Definition mset_insert (x : module) (l : list module) : list module :=
  if existsb (module_eqb x) l then l else l ++ [x].

(* Module::build_env: (module env, build-dep modules); a single-valued `notify` becomes the first
   list element (after the C15 fix; the pinned code panicked) *)
Definition build_env (global_env : env) (ms : list module) (provs : list (str * list module)) (self : module)
  : res (env * option (list module)) :=
  let deps := imports_postorder ms provs self in
  let step (acc : res (env * option (list module))) (d : module) :=
    rbind acc (fun '(e, bd) =>
      let e1 := merge e (m_env_export d) in
      rbind (if m_notify_all self then Ok e1
             else match env_get (S_ "notify") e1 with
                  | None => Ok (env_insert (S_ "notify") (EList [module_define d]) e1)
                  | Some (EList l) => Ok (env_insert (S_ "notify") (EList (l ++ [module_define d])) e1)
                  | Some (Single s) => Ok (env_insert (S_ "notify") (EList [s; module_define d]) e1)
                  end) (fun e2 =>
      let bd1 := if negb (module_eqb d self) && m_is_build_dep d
                 then Some (mset_insert d (odflt [] bd)) else bd in
      Ok (e2, bd1))) in
  rbind (fold_left step deps (Ok (global_env, None))) (fun '(e, bd) =>
    let e1 := if m_notify_all self
              then env_insert (S_ "notify")
                     (EList (map module_define (filter (fun d => negb (is_context_module d)) ms))) e
              else e in
    Ok (merge e1 (m_env_local self), bd)).
