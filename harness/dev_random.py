import sys, json, random; sys.path.insert(0, '/verif')
from harness import core, e2e, genproj
laze = core.build_impl(); drv = core.build_model()
seed = int(sys.argv[1]) if len(sys.argv) > 1 else 1
n = int(sys.argv[2]) if len(sys.argv) > 2 else 100
rng = random.Random(seed)
cases = [genproj.gen_project(rng) for _ in range(n)]
res = e2e.run_batch(laze, drv, cases)
from collections import Counter
kinds = Counter(); dis = Counter(); nb = Counter(); nbuilds = 0; nnob = Counter()
for i, r in enumerate(res):
    kinds[r['model']['kind'] + ' ' + str(r['model'].get('tag') or '')] += 1
    if r['model']['kind'] == 'ok':
        nbuilds += len(r['model']['builds'])
        for x in r['model']['nobuilds']: nnob[x[2]] += 1
    for d in r['dis']: dis[d[:60]] += 1
    if r['dis'] and '-v' in sys.argv:
        print(i, r['dis'], r['impl']['err'])
        json.dump(dict(files=r['files'], cli=r['cli']), open('/tmp/case_%d.json' % i, 'w'))
print("model outcomes", dict(kinds)); print("builds", nbuilds, "nobuilds", dict(nnob)); print("disagreements", dict(dis))
