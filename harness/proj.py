"""Abstract projects: python dicts in the shape of laze's YAML schema.  One representation, two
spellings: JSON-flow YAML files for laze, and the token encoding read by coq/model/Driver.v."""
import json, os
from .core import hexs, hopt

# ---------------------------------------------------------------- token encoding (mirrors Driver.v readers)
def b(x): return "1" if x else "0"
def lst(items, f=hexs): return [str(len(items))] + [t for i in items for t in _l(f(i))]
def optlst(items, f=hexs): return ["-"] if items is None else lst(items, f)
def _l(x): return x if isinstance(x, list) else [x]

def envkey(v):
    if isinstance(v, str): return ["S", hexs(v)]
    return ["L", str(len(v))] + [hexs(x) for x in v]
def env(e): return [str(len(e))] + [t for k, v in e.items() for t in [hexs(k)] + envkey(v)]
def optenv(e): return ["-"] if e is None else ["+"] + env(e)

def export(x):
    k, v = x
    return [hexs(k), hopt(v)]
def exports(l):
    """a plain name exports that variable; a map exports each of its entries (utils.rs into_specs)"""
    if l is None: return None
    out = []
    for x in l:
        if isinstance(x, str): out.append((x, None))
        else: out += list(x.items())
    return out

def rule(r):
    return [hexs(r["name"]), hexs(r["cmd"]), hopt(r.get("in")), hopt(r.get("out")), hopt(r.get("gcc_deps")),
            hopt(r.get("rspfile")), hopt(r.get("rspfile_content")), hopt(r.get("pool")), hopt(r.get("description"))] + \
           optlst(exports(r.get("export")), export) + [b(r.get("always", False)), b(r.get("shareable", r.get("sharable", True)))]

def task(t):
    return lst(t["cmd"]) + optlst(t.get("required_vars")) + optlst(t.get("required_modules")) + \
           optlst(exports(t.get("export")), export) + [b(t.get("build", True)), hopt(t.get("workdir"))]
def named_task(kv): return [hexs(kv[0])] + task(kv[1])

FIELDS = ["from", "joiner", "prefix", "suffix", "start", "end"]
def mergeopt(kv): return [hexs(kv[0])] + [hopt(kv[1].get(f)) for f in FIELDS]

def ctx(c, is_builder):
    return [hexs(c["name"]), hopt(c.get("parent"))] + optenv(c.get("env")) + optlst(c.get("selects")) + \
           optlst(c.get("disables")) + optlst(c.get("provides")) + optlst(c.get("provides_unique")) + \
           optlst(c.get("rules"), rule) + \
           optlst(None if c.get("var_options") is None else list(c["var_options"].items()), mergeopt) + \
           optlst(None if c.get("tasks") is None else list(c["tasks"].items()), named_task) + [b(c.get("is_builder", c.get("buildable", False)))]

def depspec(d):
    if isinstance(d, str): return ["S", hexs(d)]
    return ["M", str(len(d))] + [t for k, v in d.items() for t in [hexs(k)] + lst(v)]
def ctxspec(c):
    if c is None: return ["N"]
    if isinstance(c, str): return ["S", hexs(c)]
    return ["L"] + lst(c)
def custom(cb): return [hopt(cb.get("gcc_deps"))] + lst(cb["cmd"]) + optlst(cb.get("out"))

def download(d):
    g = d.get("git") or {}
    src = ["C", hexs(g["url"]), hexs(g["commit"])] if "git" in d and set(g) == {"url", "commit"} else ["U"]
    return src + optlst(d.get("patches")) + [hopt(d.get("dldir"))]

def mod(m):
    e = m.get("env") or {}
    return [hopt(m.get("name"))] + ctxspec(m.get("context")) + optlst(m.get("depends"), depspec) + \
           optlst(m.get("selects"), depspec) + optlst(m.get("uses")) + optlst(m.get("provides")) + \
           optlst(m.get("provides_unique")) + optlst(m.get("conflicts", m.get("disables"))) + [b(m.get("notify_all", False))] + \
           optlst(m.get("sources"), depspec) + \
           optlst(None if m.get("tasks") is None else list(m["tasks"].items()), named_task) + \
           (["-"] if m.get("build") is None else ["+"] + custom(m["build"])) + \
           optenv(e.get("local")) + optenv(e.get("export")) + optenv(e.get("global")) + \
           optlst(m.get("blocklist")) + optlst(m.get("allowlist")) + [hopt(m.get("srcdir"))] + \
           [b(m.get("is_build_dep", False)), b(m.get("is_global_build_dep", False))] + \
           (["-"] if m.get("download") is None else ["+"] + download(m["download"]))

def modlist(d, key):
    if key not in d: return ["-"]
    if d[key] is None: return ["0"]
    return ["+"] + lst(d[key], mod)

def doc(d):
    df = d.get("defaults") or {}
    return optlst(d.get("contexts"), lambda c: ctx(c, False)) + optlst(d.get("builders"), lambda c: ctx(c, True)) + \
           modlist(d, "modules") + modlist(d, "apps") + optlst(d.get("includes")) + optlst(d.get("subdirs")) + \
           (["-"] if "module" not in df else ["+"] + mod(df["module"])) + \
           (["-"] if "app" not in df else ["+"] + mod(df["app"])) + optlst(imports(d.get("imports")))

def imports(l):
    """local imports without symlink are modelled (by directory); anything else is not"""
    if l is None: return None
    for i in l:
        if "path" not in i or i.get("symlink") or set(i) - {"path", "name", "dldir", "symlink"}:
            raise ValueError("import not modelled: %r" % (i,))
    return [i["path"] for i in l]

def tree(files):
    """files: dict filename -> list of docs"""
    return [str(len(files))] + [t for f, ds in files.items() for t in [hexs(f)] + lst(ds, doc)]

def selector(s): return ["*"] if s is None else lst(s)

def cli(c, build_dir, project_root, laze_bin):
    part = ["-"] if c.get("partition") is None else ["count", str(c["partition"][0]), str(c["partition"][1])]
    return [hexs(build_dir), hexs(project_root), hexs(laze_bin)] + selector(c.get("builders")) + selector(c.get("apps")) + \
           [hopt(c.get("local"))] + lst(c.get("select", [])) + lst(c.get("disable", [])) + lst(c.get("define", [])) + part

def gen_request(files, c, build_dir, project_root, laze_bin):
    files = subst_root(files, project_root)
    return " ".join(["gen"] + tree(files) + cli(c, build_dir, project_root, laze_bin))

def subst_root(files, root):
    """file names and strings may mention the absolute scratch directory as @ABSROOT@"""
    txt = json.dumps(files)
    return json.loads(txt.replace("@ABSROOT@", root)) if "@ABSROOT@" in txt else files

# ---------------------------------------------------------------- YAML rendering
def render(files, root):
    files = subst_root(files, root)
    for name, docs in files.items():
        path = os.path.join(root, name)
        os.makedirs(os.path.dirname(path), exist_ok=True)
        with open(path, "w") as f:
            # a document that declares nothing is written as an empty map, as nothing at all, or as a comment: all three are
            # documents (they count for the numbering of the documents of a file)
            def txt(i, d):
                if d == {} and i % 3 == 1: return ""
                if d == {} and i % 3 == 2: return "# nothing here"
                return json.dumps(d, ensure_ascii=False)
            f.write("\n---\n".join(txt(i, d) for i, d in enumerate(docs)) + "\n")

def argv(c):
    a = []
    if c.get("builders") is not None:
        for x in c["builders"]: a += ["-b", x]
    if c.get("apps") is not None:
        for x in c["apps"]: a += ["-a", x]
    for x in c.get("select", []): a += ["--select", x]
    for x in c.get("disable", []): a += ["--disable", x]
    for x in c.get("define", []): a += ["-D", x]
    if c.get("partition") is not None: a += ["--partition", "count:%d/%d" % tuple(c["partition"])]
    return a
