"""Random project generator (structured, mostly valid). Every choice comes from the rng passed in."""

VARS = ["CFLAGS", "LIBS", "X", "Y", "notify", "OPT"]
FEATURES = ["f0", "f1", "f2"]

def pick(rng, p): return rng.random() < p

def rand_value(rng, deep=True):
    atoms = ["-O2", "v1", "v2", "é", "a b", "", "${OPT}", "${builder}", "${app}", "\\${lit}", "${relpath}",
             "$(1+2)", "${nosuch}", "x${OPT}y", "-I${relpath}/inc", "-O2", "v3", "w w", "${Y}"]
    if pick(rng, 0.55):
        return rng.choice(atoms)
    return [rng.choice(atoms) for _ in range(rng.randint(0, 3))]

def rand_env(rng, p=0.5, nmax=3, pool=VARS):
    if not pick(rng, p): return None
    e = {}
    for v in rng.sample(pool, rng.randint(1, nmax)):
        val = rand_value(rng)
        if v == "notify" and isinstance(val, str):
            val = [val]          # a single-valued `notify` export is a separate (malformed) class
        e[v] = val
    return e

def base_rules(rng):
    rules = [
        {"name": "CC", "in": "c", "out": "o", "cmd": "cc ${CFLAGS} ${X} -c ${in} -o ${out}"},
        {"name": "LINK", "in": "o", "cmd": "ld ${LIBS} ${Y} ${in} -o ${out} # ${modules}"},
    ]
    if pick(rng, 0.3):
        rules.append({"name": "AS", "in": "S", "out": "o", "cmd": "as ${in} -o ${out}", "shareable": False})
    if pick(rng, 0.2):
        rules[0]["gcc_deps"] = "${out}.d"
    if pick(rng, 0.15):
        rules[0]["export"] = ["X", {"EXP": "${OPT}"}]
    if pick(rng, 0.1):
        rules.append({"name": "POST_LINK", "in": "elf", "out": "bin", "cmd": "objcopy ${in} ${out}"})
    return rules

def dep_list(rng, names, nmax=3, p_opt=0.4, p_if=0.2):
    out = []
    for _ in range(rng.randint(0, nmax)):
        n = rng.choice(names)
        r = rng.random()
        if r < p_if:
            cond = rng.choice(names)
            tgt = rng.choice(names)
            out.append({cond: [("?" if pick(rng, 0.3) else "") + tgt]})
        elif r < p_if + p_opt:
            out.append("?" + n)
        else:
            out.append(n)
    return out

def gen_project(rng, size="small", features=("resolver", "env", "gen"), focus=None):
    pc = 0.3 if focus == "conflicts" else 0.08      # conflicts per module
    pu = 0.3 if focus == "conflicts" else 0.1       # provides_unique per module
    nctx = rng.randint(0, 3 if size == "small" else 4)
    ctx_names = ["c%d" % i for i in range(nctx)]
    contexts = [{"name": "default", "rules": base_rules(rng),
                 "env": {"bindir": "${build-dir}/${builder}/${app}", **(rand_env(rng, 0.7) or {})}}]
    for i, n in enumerate(ctx_names):
        c = {"name": n, "parent": rng.choice(["default"] + ctx_names[:i])}
        e = rand_env(rng, 0.5)
        if e: c["env"] = e
        if pick(rng, 0.2):
            c["rules"] = [{"name": "CC", "in": "c", "out": "o", "cmd": "cc-" + n + " ${CFLAGS} -c ${in} -o ${out}",
                           **({"always": True} if pick(rng, 0.0) else {})}]
        contexts.append(c)
    nb = rng.randint(1, 3)
    builders = []
    for i in range(nb):
        bname = "b%d" % i
        bd = {"name": bname, "parent": rng.choice(["default"] + ctx_names)}
        e = rand_env(rng, 0.4)
        if e: bd["env"] = e
        if pick(rng, 0.25):
            bd["var_options"] = {rng.choice(["CFLAGS", "LIBS", "X"]): {k: v for k, v in
                                 (("joiner", ","), ("prefix", "-p"), ("suffix", ";"), ("start", "<"), ("end", ">")) if pick(rng, 0.5)}}
        builders.append(bd)
    all_ctx = contexts + builders
    mod_names = ["m%d" % i for i in range(rng.randint(2, 6 if size == "small" else 8))]
    names = mod_names + FEATURES[:rng.randint(0, 3)]
    for c in all_ctx:
        if pick(rng, 0.2): c["selects"] = [("?" if pick(rng, 0.5) else "") + rng.choice(names) for _ in range(rng.randint(1, 2))]
        if pick(rng, 0.08): c["disables"] = [rng.choice(names)]
        if pick(rng, 0.1): c["provides"] = [rng.choice(FEATURES)]
        if pick(rng, 0.07): c["provides_unique"] = [rng.choice(FEATURES)]
    modules = []
    ctx_all_names = ["default"] + ctx_names + [b["name"] for b in builders]
    for n in mod_names:
        ndef = 2 if pick(rng, 0.2) else 1
        where = ["default"] if pick(rng, 0.65) else []
        for c in rng.sample(ctx_all_names, len(ctx_all_names)):
            if len(where) < ndef and c not in where: where.append(c)
        for ctxn in where:
            m = {"name": n}
            if ctxn != "default" or pick(rng, 0.3): m["context"] = ctxn
            for key, p in (("selects", 0.5), ("depends", 0.5)):
                if pick(rng, p):
                    dl = dep_list(rng, names)
                    if dl: m[key] = dl
            if pick(rng, 0.3): m["uses"] = [rng.choice(names) for _ in range(rng.randint(1, 2))]
            if pick(rng, 0.4): m["provides"] = rng.sample(FEATURES, rng.randint(1, 2))
            if pick(rng, pu): m["provides_unique"] = [rng.choice(FEATURES)]
            if pick(rng, pc): m["conflicts"] = [rng.choice(FEATURES if pick(rng, 0.6) else names)]
            if pick(rng, 0.8):
                srcs = [n + ".c"] + (["x%d.c" % rng.randint(0, 2)] if pick(rng, 0.3) else []) + ([n + ".S"] if pick(rng, 0.1) else [])
                if pick(rng, 0.2): srcs.append({rng.choice(names): ["opt_" + n + ".c"]})
                m["sources"] = srcs
            env = {}
            for scope in ("local", "export", "global"):
                e = rand_env(rng, 0.3)
                if e: env[scope] = e
            if env: m["env"] = env
            if pick(rng, 0.05): m["notify_all"] = True
            modules.append(m)
    apps = []
    for i in range(rng.randint(1, 3)):
        a = {"name": "app%d" % i, "sources": ["main%d.c" % i]}
        if pick(rng, 0.15): a["context"] = rng.choice(ctx_all_names)
        dl = dep_list(rng, names, nmax=4)
        if dl: a[rng.choice(["selects", "depends"])] = dl
        if pick(rng, 0.15): a["conflicts"] = [rng.choice(names)]
        if pick(rng, 0.12): a["allowlist"] = rng.sample(ctx_all_names, rng.randint(1, 2))
        if pick(rng, 0.12): a["blocklist"] = rng.sample(ctx_all_names, rng.randint(1, 2))
        env = {}
        for scope in ("local", "export", "global"):
            e = rand_env(rng, 0.25)
            if e: env[scope] = e
        if env: a["env"] = env
        apps.append(a)
    doc = {"contexts": contexts, "builders": builders, "modules": modules, "apps": apps}
    cli = {}
    if pick(rng, 0.3): cli["select"] = [("?" if pick(rng, 0.3) else "") + rng.choice(names) for _ in range(rng.randint(1, 2))]
    if pick(rng, 0.15): cli["disable"] = [rng.choice(names) for _ in range(rng.randint(1, 2))]
    if pick(rng, 0.25): cli["define"] = [rng.choice(VARS[:4]) + rng.choice(["=", "+="]) + rng.choice(["d1", "d 2", "${X}", ""]) for _ in range(rng.randint(1, 3))]
    if pick(rng, 0.15): cli["builders"] = rng.sample([b["name"] for b in builders], rng.randint(1, len(builders)))
    if pick(rng, 0.15): cli["apps"] = rng.sample([a["name"] for a in apps], rng.randint(1, len(apps)))
    return {"laze-project.yml": [doc]}, cli
