"""Random project generator (structured, mostly valid). Every choice comes from the rng passed in.
focus: None | 'conflicts' | 'env' | 'build' | 'layout' biases the feature mix."""

import json
VARS = ["CFLAGS", "X", "LIBS", "Y", "notify", "OPT"]
FEATURES = ["f0", "f1", "f2"]

def pick(rng, p): return rng.random() < p

def rand_value(rng):
    atoms = ["-O2", "v1", "v2", "é", "a b", "", "${OPT}", "${builder}", "${app}", "\\${lit}", "${relpath}",
             "$(1+2)", "${nosuch}", "x${OPT}y", "-I${relpath}/inc", "-O2", "v3", "w w", "${Y}", "${srcdir}/i", "${root}/r", "${out}.map"]
    if pick(rng, 0.55):
        return rng.choice(atoms)
    return [rng.choice(atoms) for _ in range(rng.randint(0, 3))]

def rand_env(rng, p=0.5, nmax=3, pool=None):
    pool = pool or VARS
    if not pick(rng, p): return None
    e = {}
    for v in rng.sample(pool, rng.randint(1, min(nmax, len(pool)))):
        val = rand_value(rng)
        if v == "notify" and isinstance(val, str):
            val = [val]          # a single-valued `notify` export is a separate (malformed) class
        e[v] = val
    return e

def base_rules(rng):
    rules = [
        {"name": "CC", "in": "c", "out": "o", "cmd": "cc ${CFLAGS} ${X} -c ${in} -o ${out}"},
        {"name": "LINK", "in": "o", "cmd": "ld ${LIBS} ${Y} ${in} -o ${out} # ${modules}"},
    ]
    if pick(rng, 0.3):
        rules.append({"name": "AS", "in": "S", "out": "o", "cmd": "as ${in} -o ${out}", "shareable": False})
        if pick(rng, 0.4):      # extensions that differ in case only are different extensions
            rules.append({"name": "ASL", "in": "s", "out": "o", "cmd": "as-plain ${in} -o ${out}"})
    if pick(rng, 0.2):
        rules[0]["gcc_deps"] = "${out}.d"
    if pick(rng, 0.4 if MULTIKEY else 0.15):
        rules[0]["export"] = [rng.choice(["X", "X", "Y", "OPT"]), {"EXP": "${OPT}", **({"EXP2": "two", "EXP3": "three"} if MULTIKEY else {})}]
        if pick(rng, 0.3): rules[0]["export"].insert(rng.randrange(3), {})
    if pick(rng, 0.1):
        rules.append({"name": "POST_LINK", "in": "elf", "out": "bin", "cmd": "objcopy ${in} ${out}"})
    if pick(rng, 0.1):
        rules[0]["pool"] = "console"
    if pick(rng, 0.1):
        rules[1]["rspfile"] = "${out}.rsp"; rules[1]["rspfile_content"] = "${in}"
    if pick(rng, 0.1):
        rules[0]["description"] = "CC ${out}"
    if pick(rng, 0.12):
        # a response file whose content mentions laze variables (written as is: rules expand cmd and depfile only)
        rules[0]["rspfile"] = "${out}.rsp"; rules[0]["rspfile_content"] = "${CFLAGS} ${X} ${in}"
    return rules

DL_RULES = [{"name": "GIT_DOWNLOAD", "cmd": "D=$$(dirname ${out}); git clone ${url} -b ${commit} $$D && touch ${out}"},
            {"name": "GIT_PATCH", "cmd": "D=$$(dirname ${out}); git -C $$D am ${in} && touch ${out}"}]

MULTIKEY = False      # focus == 'maps': YAML maps with several keys (document order matters)

def dep_list(rng, names, nmax=3, p_opt=0.4, p_if=0.2):
    out = []
    for _ in range(rng.randint(0, nmax)):
        n = rng.choice(names)
        r = rng.random()
        if r < (0.5 if MULTIKEY else p_if):
            d = {}
            for _k in range(rng.randint(2, 4) if MULTIKEY else 1):
                d[rng.choice(names)] = [("?" if pick(rng, 0.3) else "") + rng.choice(names) for _j in range(rng.randint(1, 2) if MULTIKEY else 1)]
            out.append(d)
        elif r < p_if + p_opt:
            out.append("?" + n)
        else:
            out.append(n)
    return out

def rand_task(rng, names):
    t = {"cmd": [rng.choice(["echo ${app} ${builder}", "run ${out}", "echo \\${lit} $$X", "flash ${X}", "size ${LIBS} ${Y} ${out}"])]}
    if pick(rng, 0.3): t["required_vars"] = [rng.choice(["X", "CFLAGS", "NOPE"])]
    if pick(rng, 0.2):
        # an expression that is only valid where the requirement holds
        t["cmd"] = ["echo $(${PORT} + 1)"]; t["required_vars"] = ["PORT"]
    if pick(rng, 0.3): t["required_modules"] = [rng.choice(names)]
    if pick(rng, 0.2): t["build"] = False
    if pick(rng, 0.2): t["export"] = ["X"]
    if pick(rng, 0.15): t["workdir"] = rng.choice([".", "${relpath}", "${relpath}/."])      # (directories that exist)
    return t

def gen_module(rng, n, names, ctx_choice, penv, pc, pu, focus):
    m = {"name": n}
    if ctx_choice is not None: m["context"] = ctx_choice
    for key, p in (("selects", 0.5), ("depends", 0.8 if focus == "imports" else 0.5)):
        if pick(rng, p):
            dl = dep_list(rng, names, p_if=(0.5 if focus == "imports" and key == "depends" else 0.2))
            if dl: m[key] = dl
    if pick(rng, 0.7 if focus == "build" else 0.3):
        m["uses"] = [("?" if pick(rng, 0.2) else "") + rng.choice(names) for _ in range(rng.randint(2, 4) if focus == "build" else rng.randint(1, 2))]
    if pick(rng, 0.4): m["provides"] = rng.sample(FEATURES, rng.randint(1, 2))
    if pick(rng, pu): m["provides_unique"] = [rng.choice(FEATURES)]
    if pick(rng, 0.08):
        # a provided name that is also the name of a module: a dependency on it takes the providers AND the module
        others = [x for x in names if x not in FEATURES and x != n]
        if others: m["provides"] = list(m.get("provides") or []) + [rng.choice(others)]
    if pick(rng, pc): m["conflicts"] = [rng.choice(FEATURES if pick(rng, 0.6) else names)]
    pbuild = 0.35 if focus == "build" else 0.08
    if pick(rng, pbuild):
        m["build"] = {"cmd": [rng.choice(["gen ${X} > ${out}", "gen ${X} > ${out}", "gen \\${X} ${X} \\${CFLAGS} > ${out}"])] + (["touch ${relpath}/stamp"] if pick(rng, 0.3) else []),
                      **({"out": [(rng.choice(["gen/${builder}/${app}/", "gen/${builder}/${app}/", ""])) + n + "_gen.h"] +
                                 ([n + "_gen2.h"] if pick(rng, 0.2) else [])} if pick(rng, 0.9) else {})}
        if pick(rng, 0.7): m["is_build_dep"] = True
        if pick(rng, 0.5): m["sources"] = [n + ".tmpl"]
        if pick(rng, 0.1): m["download"] = {"git": {"url": "https://example.org/%s.git" % n, "commit": "beef%d" % rng.randint(0, 9)}}
    else:
        if pick(rng, 0.8):
            srcs = [n + ".c"] + (["x%d.c" % rng.randint(0, 2)] if pick(rng, 0.3) else []) + ([n + ".S"] if pick(rng, 0.1) else []) + ([n + "_l.s"] if pick(rng, 0.05) else [])
            if pick(rng, 0.06): srcs.append(n + rng.choice([" with blank.c", ":colon.c", " two  blanks.c", "$ dollar blank.c"]))   # names ninja would split
            if pick(rng, 0.04): srcs.append(srcs[0])         # a source listed twice stays listed twice, in place
            if pick(rng, 0.6 if MULTIKEY else 0.25):
                d = {}
                for _k in range(rng.randint(2, 3) if MULTIKEY else 1):
                    g = rng.choice(names[:2] if pick(rng, 0.6) else names)
                    if CTXNAMES and pick(rng, 0.15): g = "context::" + rng.choice(CTXNAMES)     # a context module as the guard
                    d[g] = ["opt_%s_%s.c" % (n, g.replace("::", "_"))]
                srcs.append(d)
            if pick(rng, 0.1) and len(srcs) > 1 and isinstance(srcs[-1], dict):
                srcs = [s for s in srcs if isinstance(s, dict)]            # a module with optional sources only
            m["sources"] = srcs
        if pick(rng, 0.03 if focus != "build" else 0.08): m["is_global_build_dep"] = True
        # downloaded sources (nothing is fetched at generation time: tag files, phony statements, aliases)
        if pick(rng, 0.12 if focus == "build" else 0.04):
            src = {"git": {"url": "https://example.org/%s.git" % n, "commit": "c0ffee%d" % rng.randint(0, 9)}}
            if pick(rng, 0.08): src = {"git": {"url": "u", "branch": "main"}}          # unsupported kind
            m["download"] = dict(src, **({"patches": ["000%d.patch" % k for k in range(rng.randint(1, 2))]} if pick(rng, 0.3) else {}),
                                 **({"dldir": "ext/" + n} if pick(rng, 0.2) else {}))
        elif pick(rng, 0.04 if focus == "build" else 0.01):
            m["srcdir"] = rng.choice(["${build-dir}/dl/./%s/sub", "${build-dir}/dl/%s/sub", "build/dl/%s"]) % rng.choice(names)   # sources inside another module's download
    env = {}
    for scope in ("local", "export", "global"):
        e = rand_env(rng, penv, pool=VARS)
        if e: env[scope] = e
    if env: m["env"] = env
    if pick(rng, 0.05): m["notify_all"] = True
    if pick(rng, 0.04): m["srcdir"] = rng.choice(["alt", "${relpath}/alt"])
    if pick(rng, 0.06): m["tasks"] = {rng.choice(["t1", "t2"]): rand_task(rng, names)}
    return m

def gen_defaults(rng, names, penv):
    d = {}
    if pick(rng, 0.5):
        dl = dep_list(rng, names, nmax=2)
        if dl: d[rng.choice(["selects", "depends"])] = dl
    if pick(rng, 0.4): d["sources"] = ["common.c"] + ([{rng.choice(names[:2] if pick(rng, 0.6) else names): ["common_opt.c"]}] if pick(rng, 0.6) else [])
    if pick(rng, 0.3): d["uses"] = [rng.choice(names)]
    e = rand_env(rng, 0.5, pool=VARS)
    if e: d["env"] = {rng.choice(["local", "export", "global"]): e}
    if pick(rng, 0.15): d["provides"] = [rng.choice(FEATURES)]
    if pick(rng, 0.1): d["conflicts"] = [rng.choice(names)]
    # defaults' allow/block lists are extended (not replaced) by the module's own
    if CTXNAMES and pick(rng, 0.2): d["blocklist"] = rng.sample(CTXNAMES, rng.randint(1, min(2, len(CTXNAMES))))
    if CTXNAMES and pick(rng, 0.15): d["allowlist"] = rng.sample(CTXNAMES, rng.randint(1, min(2, len(CTXNAMES))))
    # a default context: modules/apps that name none of their own live there
    if CTXNAMES and pick(rng, 0.2): d["context"] = rng.choice(CTXNAMES)
    return d

def add_removals(rng, d):
    """modules / apps of a document whose defaults bring dependency lists: now and then a module removes an
    inherited entry with '-name' (a plain name removes the hard, the optional '?name' and a conditional form alike)"""
    for key, dk in (("modules", "module"), ("apps", "app")):
        dflt = (d.get("defaults") or {}).get(dk) or {}
        for field in ("selects", "depends", "uses"):
            names = []
            for e in dflt.get(field) or []:
                if isinstance(e, str): names.append(e.lstrip("?"))
                else: names += [x.lstrip("?") for l in e.values() for x in l]
            if not names: continue
            for m in d.get(key) or []:
                if pick(rng, 0.35):
                    own = m.setdefault(field, [])
                    own.insert(rng.randint(0, len(own)), "-" + rng.choice(names))
                    if pick(rng, 0.2): own.append("-" + rng.choice(["m0", "nosuch"]))      # removes nothing, or something of its own

CTXNAMES = []

def gen_project(rng, size="small", features=None, focus=None):
    global VARS, MULTIKEY
    MULTIKEY = focus == "maps"
    VARS = ["CFLAGS", "X", "LIBS"] + (["Y", "notify", "OPT"] if focus != "env" else [])
    penv = 0.6 if focus in ("env", "imports") else 0.3
    pc = 0.3 if focus == "conflicts" else 0.08
    pu = 0.3 if focus == "conflicts" else 0.1
    layout = focus == "layout" or pick(rng, 0.25)
    nctx = rng.randint(0, 3 if size == "small" else 4)
    ctx_names = ["c%d" % i for i in range(nctx)]
    contexts = [{"name": "default", "rules": base_rules(rng),
                 "env": {"bindir": "${build-dir}/${builder}/${app}", **(rand_env(rng, 0.7) or {})}}]
    for i, n in enumerate(ctx_names):
        c = {"name": n, "parent": rng.choice(["default"] + ctx_names[:i])}
        e = rand_env(rng, 0.5)
        if e: c["env"] = e
        if pick(rng, 0.2):
            c["rules"] = [{"name": "CC", "in": "c", "out": "o", "cmd": "cc-" + n + " ${CFLAGS} -c ${in} -o ${out}"}]
        if pick(rng, 0.3 if focus == "env" else 0.1):
            c["var_options"] = {rng.choice(["CFLAGS", "LIBS"]): {"prefix": "-q"}}
        if "rules" not in c and pick(rng, 0.12):
            c["rules"] = [dict(contexts[0]["rules"][0], always=True)]     # the default CC rule, but always rebuilt
        contexts.append(c)
    nb = rng.randint(1, 3)
    builders = []
    for i in range(nb):
        bd = {"name": "b%d" % i, "parent": rng.choice(["default"] + ctx_names)}
        if i and pick(rng, 0.15): bd["parent"] = "b%d" % rng.randrange(i)      # a builder below a builder
        e = rand_env(rng, 0.4)
        if e: bd["env"] = e
        if pick(rng, 0.3): bd.setdefault("env", {})["PORT"] = str(8000 + i)
        if pick(rng, 0.08):
            # a rule only this builder has (a key its neighbours lack)
            bd["rules"] = [rng.choice([{"name": "POST_LINK", "in": "elf", "out": "hex", "cmd": "objcopy-%d ${in} ${out}" % i},
                                       {"name": "ASB", "in": "S", "out": "o", "cmd": "as-%d ${in} -o ${out}" % i}])]
        if pick(rng, 0.25):
            bd["var_options"] = {rng.choice(["CFLAGS", "LIBS", "X"]): {k: v for k, v in
                                 (("joiner", ","), ("prefix", "-p"), ("suffix", ";"), ("start", "<"), ("end", ">")) if pick(rng, 0.5)}}
            if pick(rng, 0.4):
                # a variable rendered from: another one (X is used by the compile rule, CFLAGS is extended by modules)
                bd["var_options"]["X"] = {"from": "CFLAGS", "prefix": "-from", **({"joiner": "+"} if pick(rng, 0.5) else {})}
        builders.append(bd)
    if pick(rng, 0.12):
        # no env on the default context: its variables move to the builders (contexts without any env up the chain exist)
        env0 = contexts[0].pop("env")
        for bd in builders: bd["env"] = dict(env0, **bd.get("env", {}))
    all_ctx = contexts + builders
    mod_names = ["m%d" % i for i in range(rng.randint(2, 6 if size == "small" else 8))]
    names = mod_names + FEATURES[:rng.randint(0, 3)]
    for c in all_ctx:
        if pick(rng, 0.2): c["selects"] = [("?" if pick(rng, 0.5) else "") + rng.choice(names) for _ in range(rng.randint(1, 2))]
        hi = focus == "conflicts"
        if pick(rng, 0.25 if hi else 0.08): c["disables"] = [rng.choice(names) for _ in range(rng.randint(1, 2))]
        if pick(rng, 0.2 if hi else 0.1): c["provides"] = [rng.choice(FEATURES)]
        if pick(rng, 0.25 if hi else 0.07): c["provides_unique"] = [rng.choice(FEATURES)]
        if pick(rng, 0.08): c["tasks"] = {rng.choice(["t1", "t3"]): rand_task(rng, names)}
    ctx_all_names = ["default"] + ctx_names + [b["name"] for b in builders]
    global CTXNAMES
    CTXNAMES = list(ctx_all_names)
    modules = []
    for n in mod_names:
        ndef = 2 if pick(rng, 0.2) else 1
        where = ["default"] if pick(rng, 0.65) else []
        for c in rng.sample(ctx_all_names, len(ctx_all_names)):
            if len(where) < ndef and c not in where: where.append(c)
        if len(where) == 2 and pick(rng, 0.3):
            modules.append(gen_module(rng, n, names, list(where), penv, pc, pu, focus))     # context list
            continue
        for ctxn in where:
            modules.append(gen_module(rng, n, names, (ctxn if ctxn != "default" or pick(rng, 0.3) else None), penv, pc, pu, focus))
    apps = []
    for i in range(rng.randint(1, 3)):
        a = {"name": "app%d" % i, "sources": ["main%d.c" % i]}
        if pick(rng, 0.15): a["context"] = rng.choice(ctx_all_names)
        elif pick(rng, 0.12) and len(ctx_all_names) >= 2: a["context"] = rng.sample(ctx_all_names, 2)   # one app per listed context
        dl = dep_list(rng, names, nmax=4)
        if dl: a[rng.choice(["selects", "depends"])] = dl
        if pick(rng, 0.15): a["conflicts"] = [rng.choice(names)]
        if pick(rng, 0.12): a["allowlist"] = rng.sample(ctx_all_names, rng.randint(0 if pick(rng, 0.3) else 1, 2))     # an empty allowlist: built nowhere
        if pick(rng, 0.12): a["blocklist"] = rng.sample(ctx_all_names, rng.randint(0 if pick(rng, 0.2) else 1, 2))
        env = {}
        for scope in ("local", "export", "global"):
            e = rand_env(rng, penv, pool=VARS)
            if e: env[scope] = e
        if env: a["env"] = env
        if pick(rng, 0.08): a["tasks"] = {rng.choice(["t1", "t4"]): rand_task(rng, names)}
        apps.append(a)
        if pick(rng, 0.08) and len(ctx_all_names) >= 2 and not isinstance(a.get("context"), list):
            # the same app name declared again for another context (names are unique per context only)
            other = [c for c in ctx_all_names if c != a.get("context", "default")]
            apps.append(dict(json.loads(json.dumps(a)), context=rng.choice(other), sources=["alt%d.c" % i]))
    seen_dl = set()
    for m in modules:
        if "download" in m:
            if m["name"] in seen_dl and not pick(rng, 0.1): del m["download"]      # same name in two contexts: one download dir
            seen_dl.add(m["name"])
    if len(contexts) > 2 and pick(rng, 0.3):
        # contexts may be declared in any order: a context before its parent, the default context last
        rng.shuffle(contexts)
    if any("download" in m for m in modules):
        contexts[[c["name"] for c in contexts].index("default")]["rules"] += DL_RULES if pick(rng, 0.85) else DL_RULES[:1] if pick(rng, 0.5) else []
    doc = {"contexts": contexts, "builders": builders}
    files = {"laze-project.yml": [doc]}
    if not layout:
        doc["modules"] = modules; doc["apps"] = apps
        if pick(rng, 0.25):
            doc["defaults"] = {}
            if pick(rng, 0.8): doc["defaults"]["module"] = gen_defaults(rng, names, penv)
            if pick(rng, 0.5): doc["defaults"]["app"] = gen_defaults(rng, names, penv)
            add_removals(rng, doc)
    else:
        buckets = {"root": ([], []), "doc2": ([], []), "sub": ([], []), "deep": ([], []), "inc": ([], [])}
        with_import = pick(rng, 0.45)
        if with_import: buckets["imp"] = ([], []); buckets["impsub"] = ([], [])
        keys = list(buckets)
        for m in modules: buckets[rng.choice(keys)][0].append(m)
        for a in apps: buckets[rng.choice(keys)][1].append(a)
        def fill(d, b):
            if buckets[b][0]: d["modules"] = buckets[b][0]
            if buckets[b][1]: d["apps"] = buckets[b][1]
            if pick(rng, 0.4):
                d["defaults"] = {}
                if pick(rng, 0.8): d["defaults"]["module"] = gen_defaults(rng, names, penv)
                if pick(rng, 0.5): d["defaults"]["app"] = gen_defaults(rng, names, penv)
                add_removals(rng, d)
            return d
        fill(doc, "root")
        doc["subdirs"] = ["sub"]
        if buckets["inc"][0] or buckets["inc"][1]:
            incname = "extra.yml" if pick(rng, 0.7) else "incdir/extra.yml"      # an included file's directory is its relpath
            doc["includes"] = [incname]
            files[incname] = [fill({}, "inc")]
        if buckets["doc2"][0] or buckets["doc2"][1]:
            files["laze-project.yml"].append(fill({}, "doc2"))
        sub = fill({}, "sub")
        if buckets["deep"][0] or buckets["deep"][1] or pick(rng, 0.3):
            sub["subdirs"] = ["deep"]
            files["sub/deep/laze.yml"] = [fill({}, "deep")]
        files["sub/laze.yml"] = [sub]
        if pick(rng, 0.25):
            # documents that declare nothing (an empty map) between the others: document numbers still count them
            for fn in ("laze-project.yml", "sub/laze.yml"):
                if pick(rng, 0.6): files[fn].insert(rng.randrange(len(files[fn]) + 1), {})
        if with_import:
            # a local import: the lazefile of the imported directory is the first of laze-lib.yml, laze.yml,
            # laze-project.yml that exists; ${root} is the imported directory, unnamed modules are named
            # relative to it
            lazefiles = ["laze-lib.yml", "laze.yml", "laze-project.yml"]
            k = rng.randrange(3)
            imp = fill({}, "imp")
            for m in (imp.get("modules") or []):
                if pick(rng, 0.5): m.setdefault("env", {}).setdefault("export", {})["CFLAGS"] = ["-I${root}/include"]
            if buckets["impsub"][0] or buckets["impsub"][1] or pick(rng, 0.5):
                imp["subdirs"] = ["more"]
                more = fill({}, "impsub")
                if pick(rng, 0.6):
                    more.setdefault("modules", []).append({"sources": ["more.c"], "env": {"global": {"LIBS": ["${root}/more.a"]}}})   # named "more"
                files["vendor/lib/more/laze.yml"] = [more]
            files["vendor/lib/" + lazefiles[k]] = [imp]
            if k < 2 and pick(rng, 0.3):
                files["vendor/lib/" + lazefiles[rng.randrange(k + 1, 3)]] = [{"modules": [{"name": "ignored_lazefile", "sources": ["never.c"]}]}]
            entry = {"path": "vendor/lib"}
            if pick(rng, 0.3): entry["name"] = "lib"
            tgt = rng.choice([doc, sub])
            tgt["imports"] = [entry]
            if pick(rng, 0.05): doc["subdirs"] = doc["subdirs"] + ["vendor/lib"] if k == 1 else doc["subdirs"]
            if pick(rng, 0.4) and apps:
                rng.choice(apps).setdefault("selects", []).append(("?" if pick(rng, 0.5) else "") + "more")
        if pick(rng, 0.15) and not buckets["sub"][1]:
            sub["apps"] = None        # `apps:` with a null value: one app named after the directory
    cli = {}
    if pick(rng, 0.3): cli["select"] = [("?" if pick(rng, 0.3) else "") + rng.choice(names) for _ in range(rng.randint(1, 2))]
    if pick(rng, 0.15): cli["disable"] = [rng.choice(names) for _ in range(rng.randint(1, 2))]
    if pick(rng, 0.7 if MULTIKEY else 0.25): cli["define"] = [rng.choice(VARS[:3]) + rng.choice(["=", "+="]) + rng.choice(["d1", "d 2", "${X}", "", "-Wl,-Map=out.map", "a,b", "k=v,w", "two  blanks", " lead", "user,id=net0,fwd=tcp::1-:2", "A=1,B=2", "-device v,netdev+=n0"]) for _ in range(rng.randint(1, 3))]
    if pick(rng, 0.15): cli["builders"] = rng.sample([b["name"] for b in builders], rng.randint(1, len(builders)))
    if pick(rng, 0.15): cli["apps"] = rng.sample([a["name"] for a in apps], rng.randint(1, len(apps)))
    if layout and pick(rng, 0.3):
        # local mode: started from a directory of the project, only the apps defined there
        import os
        nested_root = "vendor/lib/laze-project.yml" in files      # laze would take vendor/lib for the project root
        cli["local"] = rng.choice(sorted({os.path.dirname(f) or "." for f in files if not (nested_root and f.startswith("vendor/"))}))
    return files, cli
