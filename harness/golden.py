#!/usr/bin/env python3
"""Run laze (generate-only) on the upstream example projects under /repo/src/tests and
compare build-global.ninja with the committed build_expected file.  Dev aid + glue test."""
import os, re, shutil, subprocess, sys, tempfile

def main(laze, verbose=False):
    root = "/repo/src/tests"
    bad = []; ok = 0; skipped = []
    for d in sorted(os.listdir(root)):
        src = os.path.join(root, d)
        exp = os.path.join(src, "build_expected", "build-global.ninja")
        if not os.path.isfile(exp):
            continue
        ts = open(os.path.join(src, "test.sh")).read()
        m = re.search(r"^build(.*)$", ts, re.M)
        if not m:
            skipped.append(d); continue
        args = m.group(1).split()
        if args and not args[0].startswith("-"):
            skipped.append(d); continue
        tmp = tempfile.mkdtemp(prefix="laze-golden-")
        try:
            dst = os.path.join(tmp, d)
            shutil.copytree(src, dst, symlinks=True)
            shutil.rmtree(os.path.join(dst, "build"), ignore_errors=True)
            env = dict(os.environ, GIT_CACHE_DIR=os.path.join(tmp, "gc"), RUST_BACKTRACE="0", HOME=tmp)
            p = subprocess.run([laze, "-C", dst, "build", "-g", "-G"] + [a for a in args if a not in ("-G",)],
                               env=env, capture_output=True, text=True, timeout=60)
            got = os.path.join(dst, "build", "build-global.ninja")
            if not os.path.isfile(got):
                bad.append((d, "no ninja file; rc=%d %s" % (p.returncode, p.stderr[-300:]))); continue
            a = open(got).read(); b = open(exp).read()
            # LAZE_BIN / project-root are absolute in some files
            if a != b:
                bad.append((d, "ninja file differs"))
                if verbose:
                    subprocess.run(["diff", got, exp])
            else:
                ok += 1
        finally:
            shutil.rmtree(tmp, ignore_errors=True)
    print("golden: ok=%d bad=%d skipped=%s" % (ok, len(bad), skipped))
    for b in bad: print("  BAD", b)
    return 1 if bad else 0

if __name__ == "__main__":
    sys.exit(main(sys.argv[1], "-v" in sys.argv))
