#!/bin/bash
# usage: try_harmless.sh <N> [ids...]  -- applies CHANGE-A,B,C of /tmp/harm2-<N> to /repo TOGETHER (those that apply on top of
# each other; the rest one by one afterwards), runs the quick checks, undoes it. Every check must stay at exit 0.
N=$1; shift; W=/tmp/harm2-$N
IDS=${@:-C01 C02 C03 C04 C05 C06 C07 C08 C09 C10 C11 C12 C13 C14 C15 C16 C17 C18 C19 C20}
run_checks() {
  (cd /repo && cargo test --offline 2>&1 | grep "test result" | sed 's/^/   /')
  for id in $IDS; do
    (cd /verif && ./check run $id --tier quick > /tmp/h.txt 2>&1; rc=$?; [ $rc -ne 0 ] && echo "   ALARM $id rc=$rc $(grep -o 'no-failing-input-found' /tmp/h.txt | head -1)" && python3 - $id <<'PY'
import json,sys
try:
    d=json.load(open('/verif/replays/%s-quick-1.json'%sys.argv[1]))
    for v in d['all'][:2]: print('      ', v['found_input'], v['what'][:220].replace('\n',' '))
except Exception: pass
PY
    )
    rm -f /verif/replays/*.json
  done
  echo "   done"
}
LATER=""
APPLIED=""
for V in A B C; do
  M=$W/CHANGE-$V
  [ -f $M/patch.diff ] || { echo "harm-$N-$V: no patch"; continue; }
  if git -C /repo apply $M/patch.diff 2>/dev/null; then APPLIED="$APPLIED $V"; else LATER="$LATER $V"; fi
done
echo "== harm-$N: changes$APPLIED together ($(git -C /repo diff --stat | tail -1))"
run_checks
git -C /repo checkout -- .
for V in $LATER; do
  echo "== harm-$N-$V alone"
  git -C /repo apply $W/CHANGE-$V/patch.diff || { echo "   DOES NOT APPLY"; continue; }
  run_checks
  git -C /repo checkout -- .
done
git -C /repo status --short | head -3
