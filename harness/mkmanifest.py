#!/usr/bin/env python3
"""Regenerates /verif/MANIFEST.json from the table below (one place to edit)."""
import json, os
VERIF = os.path.dirname(os.path.dirname(os.path.abspath(__file__)))
props = [json.loads(l) for l in open(os.path.join(VERIF, "properties.jsonl"))]

TECH = "machine-checked proof in Coq 8.16 over a hand-written Gallina model + correspondence check (extracted model vs hooked laze)"
CLAIMS = {
 "C01": dict(text="Theorems (props/C01.v): the resolver's result is closed under hard and activated if-then-hard dependencies for every lookup function, provider map, disabled set and app (postcondition proved by induction on fuel and dependency lists, with rollback as 'Err returns no state'); lifted to configure_build with decidable side conditions. Tie: end-to-end correspondence (36 upstream projects + random projects: configured set, module sets, not-built reasons byte-for-byte against the model) and the extracted closure checker closedb (proved equivalent to the Prop) applied to every module list the implementation reports.",
             note="Theorem is about coq/model/Resolver.v+Generate.v; side conditions keys_okb/prov_okb/app_okb are evaluated per build (count in evidence); app shadowed by a same-named nearer module is outside the theorem (K01). Load->bag well-formedness is checked at run time, not yet proved.", ref="DESIGN.md 7 C01, appendix A.2"),
 "C02": dict(text="Theorems (props/C02.v): a generic state-invariant theorem for the resolver and its instance Inv2 (conflicts registered, providers registered, disabled keys kept, pairwise exclusion) give: no selected module is disabled or provides a disabled name; no two selected modules conflict by name or provided feature, in either order; unique providers exclude each other. Tie: as C01 with a conflicts-focused generator half, plus the extracted checker exclusiveb (proved equivalent) on the implementation's module lists.",
             note="Theorem is about the model; provides_unique -> provides+conflicts is part of the Load model (exercised by the correspondence).", ref="DESIGN.md 7 C02, appendix A.3"),
 "C11": dict(text="Theorems (props/C11.v): is_allowed equals the decision table on the nearest listed ancestors, the nearest is listed/ancestor/minimal, and the decision is invariant under permutation of either list, for all well-formed trees; accepted trees are well-formed. Ancestry requirement: C01_configured_only_if. Tie: oracle-level correspondence on ContextBag::is_allowed (random in quick, exhaustive over all trees with <=4 contexts x lists in thorough) with permuted twins checked on the implementation directly.",
             note="Model coq/model/Allow.v; defaults' allow/block prepending is part of the Load model (e2e).", ref="DESIGN.md 7 C11"),
 "C12": dict(text="Theorems (props/C12.v): the resolver refines a fuel-free big-step specification of greedy resolution (ev/evd/evl/evp/evn), select order, first-reached (selection only grows at the end), optional transparency (same state), if-then registration, nearest-definition shadowing, provider order after merging. Tie: end-to-end correspondence incl. module order (build order from --info-export, selection order from ${modules} in LINK).",
             note="Refinement proved in the direction function => specification; completeness (specification => exists fuel) not proved.", ref="DESIGN.md 7 C12, appendix A.4"),
 "C13": dict(text="Theorems (props/C13.v): expand/expand_eval/eval are total for all byte strings, variable maps and policies (value or typed error; never panic, never out of fuel: depth bound #variables+1 proved sufficient); identity without ${ / $(; exact substitution at a reference (scanner decomposition), policies, cycle on path, escapes incl. the two-pass (load-time Defer + generation-time) delivery of the literal. Tie: oracle-level correspondence on the real expand/expand_eval/eval/Env::expand with evalexpr answers obtained from the real crate.",
             note="evalexpr is an uninterpreted total function in the theorems; stack exhaustion at extreme nesting is outside the model.", ref="DESIGN.md 7 C13, appendix B"),
 "C14": dict(text="Theorems (props/C14.v): the rendering loop equals start ++ joiner-separated prefix+v+suffix of the non-empty elements ++ end for all lists and option sets; empty/all-empty lists give start++end; empty elements are invisible; from: cases. Tie: oracle-level correspondence on Env::flatten_with_opts, exhaustive over small lists x all option subsets plus random.",
             note="Context inheritance of var_options is part of the Ctx model (finalize) and exercised end-to-end; its theorem is pending.", ref="DESIGN.md 7 C14"),
}
checks = []
for pid, c in CLAIMS.items():
    checks.append({"property_id": pid, "quick_cmd": "./check run %s --tier quick" % pid,
                   "thorough_cmd": "./check run %s --tier thorough" % pid, "evidence_file": "evidence/%s.json" % pid,
                   "replay_cmd_template": "./check replay {path}", "engine": "coq-model+correspondence",
                   "level_claimed": {"category": "proof", "text": c["text"], "design_ref": c["ref"]},
                   "level_note": c["note"], "technique": TECH})
m = {"version": 1, "setup_cmd": "./check setup",
     "hooks": {"guard": "--cfg kaspar030_laze_verif",
               "enable": "RUSTFLAGS='--cfg kaspar030_laze_verif' CARGO_TARGET_DIR=/verif/.build/target cargo build --offline (done by ./check)",
               "baseline_off_cmd": "cd /repo && cargo test --workspace --no-fail-fast --offline",
               "source_commits": ["e0c3190", "06b2ef7", "oracle contexts carry defined_in", "oracle requests for DefaultHasher and camino"], "add_only": True},
     "engines": [{"name": "coq-model+correspondence", "path": "coq/ harness/", "serves_properties": sorted(CLAIMS),
                  "kind_free_text": "Coq 8.16 proofs over a hand-written Gallina model; model extracted to OCaml and compared with hooked laze (oracle requests and end-to-end runs)"}],
     "checks": checks, "notes": "see DESIGN.md",
     "not_applicable": [{"property_id": p["id"], "reason": "check not built yet (work in progress; the model already covers loading, resolution and generation, see DESIGN.md)"}
                        for p in props if p["id"] not in CLAIMS]}
json.dump(m, open(os.path.join(VERIF, "MANIFEST.json"), "w"), indent=1)
print("claimed:", sorted(CLAIMS))
