"""Inventory of unordered containers in laze's sources (C09): every source line (outside comments and
outside src/verif_oracle.rs) that mentions std/im HashMap or HashSet, normalised.  The reviewed list is
corpus/unordered_inventory.json: each entry is classified; a line that is new or changed breaks the tie
(the model threads no iteration-order oracle for it)."""
import json, os, re, sys

def scan(repo="/repo"):
    out = []
    for root, _, files in os.walk(os.path.join(repo, "src")):
        for f in sorted(files):
            if not f.endswith(".rs") or f == "verif_oracle.rs": continue
            p = os.path.join(root, f)
            in_tests = False
            for ln in open(p, encoding="utf-8", errors="replace"):
                if re.match(r"\s*#\[cfg\(test\)\]", ln): in_tests = True
                code = ln.split("//")[0]
                if in_tests: continue
                if re.search(r"\b(HashMap|HashSet)\b", code) and not re.search(r"Index(Map|Set)", code):
                    c = code.strip()
                    # declarations that create no container are not sites: imports, function signatures, and
                    # parameters / fields of reference type (a borrowed view of a container that exists elsewhere)
                    if re.match(r"(pub(\([a-z]+\))? )?use\b", c) or re.match(r"(pub(\([a-z]+\))? )?(async )?fn\b", c): continue
                    if re.match(r"(pub(\([a-z]+\))? )?[a-z_][a-z0-9_]*: &", c): continue
                    out.append("%s: %s" % (os.path.relpath(p, repo), re.sub(r"\s+", " ", code.strip())))
    return sorted(set(out))

KEEP = {"let", "mut", "fn", "pub", "impl", "for", "in", "if", "else", "match", "use", "struct", "enum", "self", "as", "ref", "where", "type",
        "std", "im", "collections", "hash_map", "crate", "super", "return", "static", "const", "dyn", "move", "loop", "while"}
def norm(line):
    """a source line with the names a maintainer is free to choose blanked out: lower-case identifiers that are
    neither called (`name(`, `name!`) nor path segments (`a::b`) nor keywords become `_`; file name, types,
    methods and shape stay. Renaming a variable or field is then not a change of the inventory; a container
    of another type, another method on it, or an additional site is."""
    f, _, code = line.partition(": ")
    def sub(m):
        w = m.group(0); st, en = m.start(), m.end()
        after = code[en:en + 2]; before = code[max(0, st - 2):st]
        if w in KEEP or after.startswith("(") or after.startswith("!") or after.startswith("::") or before.endswith("::") or before.endswith("."):
            return w
        return "_"
    return f + ": " + re.sub(r"\b[a-z_][a-z0-9_]*\b", sub, code)

def compare(inv_lines, now_lines):
    """-> (new, gone): sites of the sources that the reviewed inventory does not have / no longer has, compared on
    the normalised text and as multisets"""
    from collections import Counter
    a = Counter(norm(l) for l in inv_lines); b = Counter(norm(l) for l in now_lines)
    newn = b - a; gonen = a - b
    new = []; c = Counter()
    for l in now_lines:
        n = norm(l)
        if c[n] < newn.get(n, 0): new.append(l); c[n] += 1
    gone = []; c = Counter()
    for l in inv_lines:
        n = norm(l)
        if c[n] < gonen.get(n, 0): gone.append(l); c[n] += 1
    return new, gone

def classify(line):
    rules = [
        (r"^src/nested_env/", "keywise: Env merge/flatten/expand act per key (theorems merge_keywise, C14_env); iteration order unobservable"),
        (r"^src/build.rs", "resolver state: lookup/insert only; provided_by iteration feeds a map that is only looked up; disabled_by iteration reaches messages only"),
        (r"^src/model/module.rs", "seen-set lookup only; tasks map: looked up by name"),
        (r"^src/model/context.rs", "tasks map iterated into an IndexMap keyed by name: order reaches only the order of BuildInfo.tasks (cache, task lookup by name); provided: lookup only"),
        (r"^src/model/context_bag.rs", "context_map / provided: lookup only; union_with_key is keywise"),
        (r"^src/data.rs", "defaults map and task maps: lookup / rebuilt into maps; process_removes set: membership only"),
        (r"^src/model/rule.rs|^src/model/task.rs|^src/model/shared.rs", "options map unused; env passed through to per-key lookups"),
        (r"^src/generate.rs|^src/ninja|^src/download.rs", "flattened env maps: per-key lookup by expand()"),
        (r"^src/utils.rs", "ContainingPath / serde helpers (maps in YAML now IndexMap: document order)"),
    ]
    for pat, cls in rules:
        if re.search(pat, line): return cls
    return "UNREVIEWED"

if __name__ == "__main__":
    lines = scan()
    inv = [{"line": l, "class": classify(l)} for l in lines]
    json.dump(inv, open(sys.argv[1], "w"), indent=1)
    print(len(inv), sum(1 for x in inv if x["class"] == "UNREVIEWED"))
