"""Core of the verification harness: builds (hooked laze, Coq cone, extracted model),
process runners, evidence and violation reporting.  Python 3 stdlib only."""
import fcntl, hashlib, json, os, random, re, shutil, subprocess, sys, tempfile, time

VERIF = os.path.dirname(os.path.dirname(os.path.abspath(__file__)))
REPO = os.environ.get("LAZE_REPO", "/repo")
BUILD = os.path.join(VERIF, ".build")
COQ = os.path.join(VERIF, "coq")
TARGET = os.path.join(BUILD, "target")
OCAML = os.path.join(BUILD, "ocaml")
GUARD = "kaspar030_laze_verif"
NCPU = os.cpu_count() or 4

FORBIDDEN = re.compile(r"\b(Admitted|admit|Axiom|Axioms|Parameter|Parameters|Conjecture|Hypothesis|Hypotheses|Variable|Variables|Unset\s+Guard|bypass_check|type-in-type|impredicative-set|Admit\s+Obligations|native_compute)\b")


class Lock:
    def __init__(self, name="lock"):
        os.makedirs(BUILD, exist_ok=True)
        self.path = os.path.join(BUILD, name)
    def __enter__(self):
        self.f = open(self.path, "w")
        fcntl.flock(self.f, fcntl.LOCK_EX)
        return self
    def __exit__(self, *a):
        fcntl.flock(self.f, fcntl.LOCK_UN)
        self.f.close()


def sh(cmd, cwd=None, timeout=1800, env=None, input=None):
    p = subprocess.run(cmd, cwd=cwd, timeout=timeout, env=env, input=input,
                       stdout=subprocess.PIPE, stderr=subprocess.STDOUT, text=True)
    return p.returncode, p.stdout


# ---------------------------------------------------------------- builds
def build_impl():
    """cargo build of /repo's working tree with the hook cfg; cargo decides what is stale."""
    with Lock("cargo.lock"):
        env = dict(os.environ, RUSTFLAGS="--cfg " + GUARD, CARGO_TARGET_DIR=TARGET,
                   CARGO_NET_OFFLINE="true")
        rc, out = sh(["cargo", "build", "--offline", "--quiet"], cwd=REPO, env=env, timeout=3000)
        if rc != 0:
            sys.stdout.write(out[-4000:])
            raise SystemExit("harness: cargo build of /repo failed (rc=%d)" % rc)
    return os.path.join(TARGET, "debug", "laze")


def coq_files():
    files = []
    for line in open(os.path.join(COQ, "_CoqProject")):
        line = line.strip()
        if line.endswith(".v"):
            files.append(line)
    return files


def coq_cone(vfile):
    """transitive closure of `Require Import Laze.x.y` starting at vfile (relative to coq/)."""
    seen, todo = [], [vfile]
    while todo:
        f = todo.pop()
        if f in seen:
            continue
        seen.append(f)
        txt = open(os.path.join(COQ, f)).read()
        for m in re.finditer(r"Laze\.([A-Za-z0-9_]+)\.([A-Za-z0-9_]+)", txt):
            dep = "%s/%s.v" % (m.group(1), m.group(2))
            if os.path.exists(os.path.join(COQ, dep)) and dep not in seen:
                todo.append(dep)
    return seen


def strip_comments(txt):
    out, depth, i = [], 0, 0
    while i < len(txt):
        if txt.startswith("(*", i):
            depth += 1; i += 2
        elif txt.startswith("*)", i) and depth > 0:
            depth -= 1; i += 2
        else:
            if depth == 0:
                out.append(txt[i])
            i += 1
    return "".join(out)


def build_coq(prop_file, clean=False):
    """make the .vo of props/<id>.v and its cone; returns dict(ok, log, obligations, axioms, broken)."""
    res = dict(ok=False, log="", obligations=0, discharged=0, assumptions=[], broken=None, cone=[])
    with Lock("coq.lock"):
        if not os.path.exists(os.path.join(COQ, "Makefile")):
            sh(["coq_makefile", "-f", "_CoqProject", "-o", "Makefile"], cwd=COQ)
        cone = coq_cone(prop_file)
        res["cone"] = sorted(cone)
        if clean:
            for f in cone:
                for ext in (".vo", ".vos", ".vok", ".glob"):
                    try: os.remove(os.path.join(COQ, f[:-2] + ext))
                    except OSError: pass
        target = prop_file[:-2] + ".vo"
        # force re-check of the property file itself so that Print Assumptions output is fresh
        try: os.remove(os.path.join(COQ, target))
        except OSError: pass
        rc, out = sh(["make", "-j%d" % NCPU, target], cwd=COQ, timeout=2400)
        res["log"] = out
    # forbidden constructs anywhere in the cone (outside comments)
    bad = []
    nq = 0
    for f in cone:
        txt = strip_comments(open(os.path.join(COQ, f)).read())
        in_section = 0
        for ln in txt.splitlines():
            if re.match(r"\s*Section\b", ln): in_section += 1
            if re.match(r"\s*End\b", ln) and in_section: in_section -= 1
            m = FORBIDDEN.search(ln)
            if m:
                w = m.group(1)
                if w in ("Variable", "Variables", "Hypothesis", "Hypotheses") and in_section:
                    continue
                bad.append("%s: %s" % (f, ln.strip()))
        nq += len(re.findall(r"\bQed\.", txt))
    res["obligations"] = nq
    if bad:
        res["broken"] = "forbidden construct: " + "; ".join(bad[:5])
        return res
    if rc != 0:
        m = re.search(r'File "\./([^"]+)", line (\d+)', out)
        res["broken"] = "coqc failed in %s" % (m.group(1) + ":" + m.group(2) if m else "?")
        return res
    # Print Assumptions audit: every block must be closed, or consist of allowlisted axioms
    blocks = re.findall(r"(Closed under the global context|Axioms:\n(?:.+\n)+?)(?=\S|\Z)", out)
    nclosed = out.count("Closed under the global context")
    axioms = re.findall(r"^Axioms:\n((?:[ \t].*\n|[A-Za-z_.0-9']+ .*\n)+)", out, re.M)
    if "Axioms:" in out:
        res["broken"] = "Print Assumptions reports axioms: " + out[out.index("Axioms:"):][:400]
        return res
    if nclosed == 0:
        res["broken"] = "no Print Assumptions output in " + prop_file
        return res
    res["assumptions"] = ["%d property theorems: Closed under the global context" % nclosed]
    res["discharged"] = nq
    res["ok"] = True
    return res


def coqchk(prop_file):
    mod = "Laze." + prop_file[:-2].replace("/", ".")
    rc, out = sh(["coqchk", "-silent", "-o", "-Q", ".", "Laze", mod], cwd=COQ, timeout=2400)
    return rc, out


def build_model():
    """extract model/Driver.v to OCaml and build the driver; keyed by a hash of model/*.v."""
    with Lock("coq.lock"):
        h = hashlib.sha256()
        for f in sorted(os.listdir(os.path.join(COQ, "model"))):
            if f.endswith(".v"):
                h.update(open(os.path.join(COQ, "model", f), "rb").read())
        for f in ("extract/Extract.v", "extract/driver.ml"):
            h.update(open(os.path.join(COQ, f), "rb").read())
        key = h.hexdigest()
        exe = os.path.join(OCAML, "model_driver")
        stamp = os.path.join(OCAML, "stamp")
        if os.path.exists(exe) and os.path.exists(stamp) and open(stamp).read() == key:
            return exe
        os.makedirs(OCAML, exist_ok=True)
        if not os.path.exists(os.path.join(COQ, "Makefile")):
            sh(["coq_makefile", "-f", "_CoqProject", "-o", "Makefile"], cwd=COQ)
        rc, out = sh(["make", "-j%d" % NCPU, "model/Driver.vo"], cwd=COQ, timeout=2400)
        if rc != 0:
            sys.stdout.write(out[-3000:]); raise SystemExit("harness: model does not compile")
        rc, out = sh(["coqc", "-Q", COQ, "Laze", os.path.join(COQ, "extract/Extract.v"),
                      "-o", os.path.join(OCAML, "Extract.vo")], cwd=OCAML)
        if rc != 0:
            sys.stdout.write(out[-3000:]); raise SystemExit("harness: extraction failed")
        shutil.copy(os.path.join(COQ, "extract/driver.ml"), OCAML)
        rc, out = sh(["ocamlfind", "ocamlopt", "-w", "-a", "model.mli", "model.ml", "driver.ml",
                      "-o", "model_driver"], cwd=OCAML)
        if rc != 0:
            sys.stdout.write(out[-3000:]); raise SystemExit("harness: ocamlopt failed")
        open(stamp, "w").write(key)
        return exe


# ---------------------------------------------------------------- oracle runners
def hexs(s):
    b = s.encode("utf-8") if isinstance(s, str) else s
    return b.hex() if b else "."

def unhexs(t):
    return "" if t == "." else bytes.fromhex(t).decode("utf-8", "replace")

def hopt(s):
    return "-" if s is None else hexs(s)


def _run_lines(cmd, lines, env=None, crash_reply="crash"):
    """feed request lines, return one reply per line; a process crash marks that request and restarts."""
    replies = []
    i = 0
    while i < len(lines):
        chunk = lines[i:]
        p = subprocess.run(cmd, input="\n".join(chunk) + "\n", env=env, text=True,
                           stdout=subprocess.PIPE, stderr=subprocess.DEVNULL, timeout=1200)
        got = p.stdout.split("\n")
        if got and got[-1] == "":
            got.pop()
        replies.extend(got[:len(chunk)])
        i += len(got)
        if len(got) < len(chunk):
            replies.append(crash_reply + " rc=%s" % p.returncode)
            i += 1
    return replies[:len(lines)]


def _parallel(cmd, lines, env=None):
    if len(lines) < 2000:
        return _run_lines(cmd, lines, env)
    from concurrent.futures import ThreadPoolExecutor
    n = min(NCPU, max(1, len(lines) // 1000))
    size = (len(lines) + n - 1) // n
    chunks = [lines[i:i + size] for i in range(0, len(lines), size)]
    with ThreadPoolExecutor(n) as ex:
        parts = list(ex.map(lambda c: _run_lines(cmd, c, env), chunks))
    return [r for p in parts for r in p]


def run_impl_oracle(laze, lines):
    env = dict(os.environ, LAZE_VERIF_ORACLE="1", RUST_BACKTRACE="0")
    return _parallel([laze], lines, env)


def run_model(driver, lines):
    # the extracted model recurses structurally over long lists (e.g. a file of several thousand statements):
    # give the OCaml process a large stack
    return _parallel(["/bin/sh", "-c", "ulimit -s unlimited 2>/dev/null || ulimit -s 1000000 2>/dev/null; exec \"$0\"", driver], lines)


def run_model_ev(laze, driver, reqs):
    """run the model, supplying evalexpr results from the real crate on demand"""
    tables = [dict() for _ in reqs]
    out = run_model(driver, reqs)
    for _ in range(80):
        need = {}
        for i, r in enumerate(out):
            t = r.split()
            if t[:1] == ["needev"] and len(t) > 1 and t[1] not in tables[i]:
                need.setdefault(t[1], []).append(i)
        if not need: break
        exprs = list(need)
        ans = run_impl_oracle(laze, ["evalexpr " + e for e in exprs])
        redo = set()
        for e, a in zip(exprs, ans):
            for i in need[e]:
                tables[i][e] = a; redo.add(i)
        redo = sorted(redo)
        lines = []
        for i in redo:
            tb = tables[i]
            lines.append(reqs[i] + " %d " % len(tb) + " ".join("%s %s" % (e, ("ok " + a.split()[1]) if a.startswith("ok ") else "err") for e, a in tb.items()))
        new = run_model(driver, lines)
        for i, r in zip(redo, new): out[i] = r
    return out, tables


def vm_crosscheck(lines, expected, n=40):
    """Evaluate a sample of requests inside Coq with vm_compute and compare with the extracted
    model's replies: cross-checks extraction + the OCaml driver."""
    if not lines:
        return 0, []
    step = max(1, len(lines) // n)
    idx = list(range(0, len(lines), step))[:n]
    tmp = tempfile.mkdtemp(prefix="laze-verif-vm-")
    try:
        src = ["From Coq Require Import Ascii String List.", "Import ListNotations.",
               "Require Import Laze.model.Base Laze.model.Driver.", "Open Scope string_scope.",
               "Definition reqs : list string := ["]
        src.append(";\n".join('"%s"' % lines[i].replace('"', '""') for i in idx))
        src.append("].")
        src.append("Definition out := map (fun r => string_of_list_ascii (handle6 (list_ascii_of_string r))) reqs.")
        src.append("Set Printing Width 1000000. Set Printing Depth 1000000.")
        src.append("Goal True. let v := eval vm_compute in out in")
        src.append("  let rec pr l := lazymatch l with | ?x :: ?t => idtac \"VMOUT\" x; pr t | _ => idtac end in pr v. exact I. Qed.")
        open(os.path.join(tmp, "cases.v"), "w").write("\n".join(src) + "\n")
        rc, out = sh(["coqc", "-noglob", "-Q", COQ, "Laze", "cases.v"], cwd=tmp, timeout=900)
        got = []
        for ln in out.splitlines():
            if ln.startswith("VMOUT "):
                v = ln[6:].strip()
                if v.startswith('"') and v.endswith('"'):
                    v = v[1:-1].replace('""', '"')
                got.append(v)
        bad = []
        if rc != 0 or len(got) != len(idx):
            bad.append("vm_compute run failed rc=%d got=%d want=%d: %s" % (rc, len(got), len(idx), out[-400:]))
        else:
            for j, i in enumerate(idx):
                if got[j] != expected[i]:
                    bad.append("request %r: vm_compute %r vs extracted %r" % (lines[i], got[j], expected[i]))
        return len(idx), bad
    finally:
        shutil.rmtree(tmp, ignore_errors=True)


# ---------------------------------------------------------------- reporting
def load_known():
    p = os.path.join(VERIF, "known_findings.json")
    if not os.path.exists(p):
        return []
    return json.load(open(p))["findings"]


class Report:
    def __init__(self, pid, tier, seed):
        self.pid, self.tier, self.seed = pid, tier, seed
        self.t0 = time.time()
        self.cov = dict(evaluations=0, distinct_nontrivial=0, rule="", samples=[], obligations=0,
                        discharged=0, checker_cmd="", trusted_base=[])
        self.assumptions = []
        self.violations = []     # list of dict(kind, what, data, found_input)
        self.known_hits = []

    def violation(self, what, data, found_input=True):
        self.violations.append(dict(what=what, data=data, found_input=found_input))

    def finish(self):
        os.makedirs(os.path.join(VERIF, "evidence"), exist_ok=True)
        rc = 0
        for k in load_known():
            if k.get("property") == self.pid and k.get("status") == "open":
                print("KNOWN-FINDING: property=%s %s" % (self.pid, k.get("summary", k.get("key"))))
        if self.violations:
            os.makedirs(os.path.join(VERIF, "replays"), exist_ok=True)
            # failing inputs first
            self.violations.sort(key=lambda v: not v["found_input"])
            v = self.violations[0]
            path = os.path.join(VERIF, "replays", "%s-%s-%d.json" % (self.pid, self.tier, self.seed))
            json.dump(dict(property=self.pid, tier=self.tier, seed=self.seed, first=v,
                           all=self.violations[:20]), open(path, "w"), indent=1, default=str)
            tail = "" if v["found_input"] else " no-failing-input-found"
            print("VIOLATION property=%s replay=%s%s" % (self.pid, path, tail))
            rc = 1
        ev = dict(property_id=self.pid, tier=self.tier, seed=self.seed, level="proof",
                  coverage=self.cov, assumptions=self.assumptions,
                  wall_s=round(time.time() - self.t0, 2), violations=len(self.violations))
        json.dump(ev, open(os.path.join(VERIF, "evidence", self.pid + ".json"), "w"), indent=1, default=str)
        return rc


TRUSTED_BASE = [
    "Coq 8.16.1 kernel incl. vm_compute (no native_compute)",
    "Print Assumptions: Closed under the global context for every property theorem (no axioms)",
    "hand-written Gallina model of the anchored Rust functions (coq/model/*.v), tied by the correspondence check",
    "extraction: ExtrOcamlBasic + ExtrOcamlString only; OCaml 4.13.1; 15-line driver.ml; cross-checked by vm_compute on a sample",
    "laze oracle hook src/verif_oracle.rs (--cfg kaspar030_laze_verif) calling the real functions",
    "python harness: generators, request rendering, reply comparison",
]


def proof_step(rep, pid, clean=False):
    """compile the property's cone, audit it, fill the evidence; returns True if the proof stands."""
    pf = "props/%s.v" % pid
    r = build_coq(pf, clean=clean)
    rep.cov["obligations"] = r["obligations"]
    rep.cov["discharged"] = r["discharged"]
    rep.cov["checker_cmd"] = "make -C coq %s.vo (coqc 8.16.1), forbidden-construct grep, Print Assumptions audit" % pf[:-2]
    rep.cov["trusted_base"] = list(TRUSTED_BASE)
    rep.cov["cone"] = r["cone"]
    rep.assumptions.extend(r["assumptions"])
    if not r["ok"]:
        rep.violation("proof obligation no longer checks: " + str(r["broken"]),
                      dict(theorem_file=pf, log=r["log"][-2000:]), found_input=False)
        return False
    if clean:
        rc, out = coqchk(pf)
        rep.cov["coqchk"] = out.strip()[-600:]
        if rc != 0 or "Axioms: <none>" not in out.replace("\n", " "):
            # coqchk prints "* Axioms: <none>" when the whole closure is axiom-free
            if rc != 0:
                rep.violation("coqchk rejects the compiled cone", dict(out=out[-2000:]), found_input=False)
                return False
    return True
