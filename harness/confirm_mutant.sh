#!/bin/bash
# usage: confirm_mutant.sh <ID> [prefix]   -- confirms a sub-agent's mutant in its scratch worktree /tmp/mut-<ID>
# (patch = MUTANT/patch.diff applies to /repo HEAD, compiles, 33 tests pass, demo passes on original, fails on mutant)
set -u
ID=$1; PFX=${2:-mut}; W=/tmp/$PFX-$ID; T=/tmp/$PFX-$ID-target
cd $W || exit 2
git -C $W diff --stat -- src | tail -1
git -C $W stash -q 2>/dev/null
git -C $W apply --check MUTANT/patch.diff && echo "patch applies to clean tree: yes"
git -C $W stash pop -q 2>/dev/null
CARGO_TARGET_DIR=$T cargo build --offline -q 2>&1 | grep -E "^error" | head -3
CARGO_TARGET_DIR=$T cargo test --offline 2>&1 | grep "test result"
cd MUTANT
bash ./demo.sh $T/laze-orig >/dev/null 2>&1; echo "demo on original: rc=$?"
bash ./demo.sh $T/debug/laze >/dev/null 2>&1; echo "demo on mutant:   rc=$?"
