#!/bin/bash
# usage: try_round9.sh <ID> [extra check ids...]  -- confirms and tries the two mutants of /tmp/mut9-<ID> (MUTANT-A, MUTANT-B)
ID=$1; shift; W=/tmp/mut9-$ID; T=/tmp/mut9-$ID-target
for V in A B; do
  M=$W/MUTANT-$V
  [ -f $M/patch.diff ] || { echo "$ID-$V: no patch"; continue; }
  echo "== $ID-$V"
  (cd /repo && git apply --check $M/patch.diff 2>/dev/null && echo "   applies to /repo HEAD") || echo "   does not apply cleanly (3-way attempted)"
  (cd $M && bash ./demo.sh $T/laze-orig >/dev/null 2>&1; echo -n "   demo orig rc=$? "; bash ./demo.sh $T/laze-$V >/dev/null 2>&1; echo "mutant rc=$?")
  git -C /repo apply $M/patch.diff 2>/dev/null || git -C /repo apply --3way $M/patch.diff || { git -C /repo checkout -- . ; continue; }; git -C /repo reset -q
  (cd /repo && CARGO_TARGET_DIR=$T cargo test --offline 2>&1 | grep "test result" | sed 's/^/   /')
  for id in $ID "$@"; do
    (cd /verif && ./check run $id --tier quick > /tmp/r4.txt 2>&1; rc=$?; echo "   $id rc=$rc $(grep -c VIOLATION /tmp/r4.txt) $(grep -o 'no-failing-input-found' /tmp/r4.txt | head -1)")
    python3 - $id <<'PY'
import json,sys
try:
    d=json.load(open('/verif/replays/%s-quick-1.json'%sys.argv[1]))
    for v in d['all'][:2]: print('      ', v['found_input'], v['what'][:180].replace('\n',' '))
except Exception: pass
PY
    rm -f /verif/replays/*.json
  done
  git -C /repo checkout -- .
done
git -C /repo status --short | head -3
