"""Histories of laze runs, edits and kills in one build directory (C08).

A history is: versions (file -> list of contents, version v = index+1), an initial tree
(file -> version) and a list of operations
    {"op": "run", "cli": {...}, "stop": k, "sc": {...scenario...}}      k = fault point, 0 = none
    {"op": "edit", "tree": {file: version}}                            the whole new tree
The real execution renders versions with a (len, mtime) that is a function of (file, version), so
that equal versions mean equal stat and different versions different stat — the model's reading of
"(len, mtime) determines the content"."""
import copy, json, os, random, shutil, subprocess, tempfile
from . import core, e2e, proj, genproj
hexs_ = core.hexs
from .props import main_common as mcn

FAULTS = {1: "after_load", 2: "after_cache_removed", 3: "after_ninja_created", 4: "after_configure",
          5: "after_entries_written", 6: "after_ninja_flushed", 7: "after_cache_written"}
T0 = 1_600_000_000

def write_version(root, name, docs, version):
    path = os.path.join(root, name)
    os.makedirs(os.path.dirname(path), exist_ok=True)
    with open(path, "w") as f:
        f.write("\n---\n".join(json.dumps(d, ensure_ascii=False) for d in docs) + "\n")
    ns = (T0 + version) * 10**9
    os.utime(path, ns=(ns, ns))

def apply_tree(root, versions, old, new):
    for f in old:
        if f not in new:
            try: os.remove(os.path.join(root, f))
            except FileNotFoundError: pass
    for f, v in new.items():
        if old.get(f) != v:
            write_version(root, f, versions[f][v - 1], v)

def ninja_path(root, cli):
    return os.path.join(root, "build", "build-local.ninja" if cli.get("local") is not None else "build-global.ninja")
def cache_path(root, cli):
    return os.path.join(root, "build", "laze-cache-local.bincode" if cli.get("local") is not None else "laze-cache-global.bincode")

def run_step(laze, tmp, root, cli, sc, stop=0, extra_env=None):
    bindir = os.path.join(tmp, "bin")
    start = os.path.join(root, cli["local"]) if cli.get("local") not in (None, ".") else root
    args = [laze, "-C", start, "build"] + ([] if cli.get("local") is not None else ["-g"]) + \
           (["-G"] if sc.get("generate_only") else []) + (["--info-export", os.path.join(tmp, "info.json")] if sc.get("info") else []) + \
           proj.argv(cli) + mcn.scenario_args(sc)
    nlog = os.path.join(tmp, "ninja.log"); tlog = os.path.join(tmp, "task.log")
    for p in (nlog, tlog):
        if os.path.exists(p): os.remove(p)
    env = e2e.clean_env(tmp)
    env.update(PATH=bindir + ":" + env.get("PATH", ""), LAZE_VERIF_NINJA_LOG=nlog, LAZE_VERIF_NINJA_RC=str(sc.get("ninja_rc", 0)),
               LAZE_VERIF_TASK_SCRIPT=os.path.join(tmp, "task.sh"), LAZE_VERIF_TASK_LOG=tlog,
               LAZE_VERIF_TASK_FAIL="" if sc.get("kill_tasks") else " ".join("%s:%s" % tuple(x) for x in sc.get("fail", [])),
               LAZE_VERIF_TASK_KILL=" ".join("%s:%s" % tuple(x) for x in sc.get("fail", [])) if sc.get("kill_tasks") else "")
    if stop: env["LAZE_VERIF_FAULT"] = FAULTS[stop]
    env.update(extra_env or {})
    pre = None
    if sc.get("fsize") is not None:
        # a write error: no file may grow beyond this size (EFBIG; the signal that comes with it is ignored)
        lim = sc["fsize"]
        def pre():
            import resource, signal
            signal.signal(signal.SIGXFSZ, signal.SIG_IGN)
            resource.setrlimit(resource.RLIMIT_FSIZE, (lim, lim))
    try:
        p = subprocess.run(args, env=env, capture_output=True, timeout=60, preexec_fn=pre)
        rc, so, se = p.returncode, p.stdout.decode("utf-8", "replace"), p.stderr.decode("utf-8", "replace")
    except subprocess.TimeoutExpired:
        rc, so, se = "timeout", "", ""
    argvs = [ln.split("\x1f") if ln else [] for ln in open(nlog).read().split("\n")[:-1]] if os.path.exists(nlog) else []
    tasks = [tuple(ln.split(" ", 1)) for ln in open(tlog).read().splitlines()] if os.path.exists(tlog) else []
    ev = e2e.take_events(tmp)
    nf = ninja_path(root, cli)
    return dict(rc=rc, stdout=so, stderr=se, ninja_argv=argvs, tasks=tasks, argv=args[1:],
                cache_hit=e2e.was_cache_hit(ev, so),
                ninja=open(nf, "rb").read() if os.path.exists(nf) else None,
                cache_exists=os.path.exists(cache_path(root, cli)) and os.path.getsize(cache_path(root, cli)) >= 24)   # (a truncated file is no cache)

def other_binary(root, oldbin):
    """what a change of the laze binary means for the build directory: every cache in it was written
    by another binary. The build uuid is the first 16 bytes of a cache file and is used for nothing but
    the comparison with the running binary's; so the caches are re-stamped with a foreign uuid (bin ids
    only grow within a history, a foreign stamp never becomes current again)."""
    for name in ("laze-cache-global.bincode", "laze-cache-local.bincode"):
        p = os.path.join(root, "build", name)
        if os.path.exists(p):
            st = os.stat(p)
            with open(p, "r+b") as f:
                f.write(b"verif-other-bin" + bytes([oldbin % 256]))
            os.utime(p, ns=(st.st_atime_ns, st.st_mtime_ns))

def setup_dir():
    tmp = tempfile.mkdtemp(prefix=e2e.SCRATCH_PREFIX); root = os.path.join(tmp, "p")
    os.makedirs(root)
    bindir = os.path.join(tmp, "bin"); os.makedirs(bindir)
    nj = os.path.join(bindir, "ninja"); open(nj, "w").write(e2e.FAKE_NINJA); os.chmod(nj, 0o755)
    open(os.path.join(tmp, "task.sh"), "w").write(mcn.TASK_SCRIPT)
    return tmp, root

def execute(laze, h, fresh_check=True):
    """run the history against the implementation. returns (root, steps, fresh) where fresh is the result
    of repeating the last run with an empty build directory (None if the last op is not a complete run)"""
    tmp, root = setup_dir()
    try:
        tree = {}
        apply_tree(root, h["versions"], tree, h["tree0"]); tree = dict(h["tree0"])
        steps = []; curbin = 1
        for op in h["ops"]:
            if op["op"] == "edit":
                apply_tree(root, h["versions"], tree, op["tree"]); tree = dict(op["tree"])
                steps.append(None)
            elif op["op"] == "corrupt":
                # what a kill inside the write of the cache file, or a full disk, leaves: a truncated file
                cp = cache_path(root, {"local": "x"} if op["local"] else {})
                if os.path.exists(cp):
                    with open(cp, "r+b") as cf: cf.truncate(op["size"])
                steps.append(None)
            else:
                if op.get("bin", 1) != curbin:
                    other_binary(root, curbin); curbin = op.get("bin", 1)
                steps.append(run_step(laze, tmp, root, op["cli"], op.get("sc", {}), op.get("stop", 0)))
        fresh = None
        last = h["ops"][-1]
        if fresh_check and last["op"] == "run" and not last.get("stop") and steps[-1]["rc"] == 0 and not last.get("sc", {}).get("info"):
            # the same command line again, nothing changed: has to be served from the cache
            steps[-1]["again_hit"] = run_step(laze, tmp, root, last["cli"], last.get("sc", {}), 0)["cache_hit"]
        if fresh_check and last["op"] == "run" and not last.get("stop"):
            shutil.rmtree(os.path.join(root, "build"), ignore_errors=True)
            fresh = run_step(laze, tmp, root, last["cli"], last.get("sc", {}), 0)
        return root, steps, fresh
    finally:
        shutil.rmtree(tmp, ignore_errors=True)

# ---------------------------------------------------------------- model request
def request(h, laze, root, bin_id=1):
    store = [(f, i + 1, docs) for f, vs in h["versions"].items() for i, docs in enumerate(vs)]
    toks = ["hist", hexs_("build"), str(len(store))]
    for f, v, docs in store:
        toks += [core.hexs(f), str(v)] + proj.lst(docs, proj.doc)
    def vt(t): return [str(len(t))] + [x for f, v in t.items() for x in (core.hexs(f), str(v))]
    toks += vt(h["tree0"]) + [str(len(h["ops"]))]
    for op in h["ops"]:
        if op["op"] == "edit":
            toks += ["E"] + vt(op["tree"])
        elif op["op"] == "corrupt":
            toks += ["C", proj.b(op["local"])]
        else:
            sc = op.get("sc", {}); fail = sc.get("fail", [])
            toks += ["R", str(op.get("bin", bin_id)), str(op.get("stop", 0)), proj.b(sc.get("info", False))] + proj.cli(op["cli"], "build", root, laze) + [
                core.hopt(sc.get("task")), proj.b(sc.get("generate_only", False)), proj.b(sc.get("multiple", False)), str(sc.get("keep_going", 1)),
                "-" if sc.get("jobs") is None else str(sc["jobs"]), str(sc.get("verbose", 0)), proj.b(sc.get("ninja_rc", 0) == 0),
                str(len(fail))] + [t for b, a in fail for t in (core.hexs(b), core.hexs(a))]
    return " ".join(toks)

def parse_reply(rp):
    """-> None if the model rejects/needs; else list of dict(kind, ninja, cache, main, file)"""
    if not rp.startswith("ok"): return None
    out = []
    if " D0" in rp.split("|")[0]: out.append(dict(kind="names-not-distinct"))
    for seg in rp[2:].split("|")[1:]:
        t = seg.split()
        if t[0] == "E": out.append(dict(kind="E")); continue
        d = dict(kind=t[0], ninja=t[1], cache=t[2] == "1", main=None, file=None)
        if t[0] == "K" and "X" in t: d["file"] = core.unhexs(t[t.index("X") + 1])
        if t[0] in ("H", "G"):
            rest = t[3:]
            if "X" in rest:
                i = rest.index("X"); d["file"] = core.unhexs(rest[i + 1]); rest = rest[:i]
            d["main"] = mcn.parse_main_reply("ok " + " ".join(rest))
        out.append(d)
    return out

def compare(h, steps, model):
    """-> list of (step index, text) where the implementation and the model's history differ"""
    dis = []
    cur = {False: None, True: None}       # the model's complete file per slot
    damaged = {False: False, True: False}     # a truncated cache file lies in the slot: it exists, but it is no cache
    for i, (op, o, m) in enumerate(zip(h["ops"], steps, model)):
        if op["op"] == "corrupt": damaged[op["local"]] = True
        if op["op"] != "run": continue
        loc = op["cli"].get("local") is not None
        k = m["kind"]
        ik = "K" if o["rc"] == -6 else ("H" if o["cache_hit"] else None)
        if k == "K":
            if o["rc"] != -6: dis.append((i, "model: killed at fault point %d; implementation rc=%s" % (op.get("stop", 0), o["rc"])))
        elif k == "F":
            if o["rc"] != 1 or o["cache_hit"]: dis.append((i, "model: the run fails; implementation rc=%s hit=%s" % (o["rc"], o["cache_hit"])))
        else:
            if ik == "K":
                dis.append((i, "implementation killed (rc=-6), model outcome %s" % k))
            elif (k == "H") != o["cache_hit"]:
                dis.append((i, "model: %s; implementation: %s" % ("served from the cache" if k == "H" else "regenerates",
                                                                 "served from the cache" if o["cache_hit"] else "regenerates")))
            d = mcn.compare(o, m["main"])
            if d: dis.append((i, "; ".join(d)))
            if k == "G": cur[loc] = m["file"]
        if k == "K" and m["file"] is not None: cur[loc] = m["file"]
        if k in ("G",) and o["ninja"] is not None and m["file"] is not None and o["ninja"].decode("utf-8", "replace") != m["file"]:
            dis.append((i, "ninja file differs from the model's"))
        st = m["ninja"]
        if st == "A" and o["ninja"] is not None: dis.append((i, "model: no ninja file; implementation has one"))
        if st.startswith("C"):
            if o["ninja"] is None or (cur[loc] is not None and o["ninja"].decode("utf-8", "replace") != cur[loc]):
                dis.append((i, "model: ninja file complete; implementation's file is missing or different"))
        if m["cache"]: damaged[loc] = False              # (a complete run wrote a new one)
        if m["cache"] != o["cache_exists"] and not (damaged[loc] and not m["cache"]):
            dis.append((i, "cache file %s, model says %s" % ("exists" if o["cache_exists"] else "does not exist", "present" if m["cache"] else "absent")))
    return dis

# ---------------------------------------------------------------- the property, on the implementation
def stmts_of(text):
    """ninja statements = blocks separated at lines that start a rule/build"""
    out = []; cur = []
    for ln in text.split("\n"):
        if (ln.startswith("rule ") or ln.startswith("build ") or ln.startswith("builddir")) and cur:
            out.append("\n".join(cur)); cur = []
        if ln.strip(): cur.append(ln)
    if cur: out.append("\n".join(cur))
    return set(out)

def effective_targets(argvs, ninja_bytes):
    """what each ninja invocation builds: its explicit targets, or — without any — every output of the file
    (ninja's default when a file declares no `default`)"""
    outs = set()
    for ln in (ninja_bytes or b"").decode("utf-8", "replace").split("\n"):
        if ln.startswith("build ") and ":" in ln:
            outs.update(x for x in ln[6:].split(":", 1)[0].replace("$", " ").split() if x)
    res = []
    for a in argvs:
        t = []; i = 0
        while i < len(a):
            if a[i] in ("-f", "-j", "-k"): i += 2
            elif a[i] == "-v": i += 1
            else: t.append(a[i]); i += 1
        res.append(sorted(t) if t else ["<all>"] + sorted(outs))
    return res

def property_check(h, steps, fresh):
    """the last run of the history against the same run in an empty build directory"""
    if fresh is None: return []
    last = steps[-1]; v = []
    if last.get("again_hit") is False: v.append("the identical command line on the unchanged tree was not served from the cache")
    if last["rc"] != fresh["rc"]: v.append("exit status %s after the history, %s with an empty build directory" % (last["rc"], fresh["rc"]))
    if last["ninja_argv"] != fresh["ninja_argv"]: v.append("ninja invocations %s after the history, %s fresh" % (last["ninja_argv"], fresh["ninja_argv"]))
    elif effective_targets(last["ninja_argv"], last["ninja"]) != effective_targets(fresh["ninja_argv"], fresh["ninja"]):
        a = effective_targets(last["ninja_argv"], last["ninja"]); b = effective_targets(fresh["ninja_argv"], fresh["ninja"])
        v.append("ninja is asked to build %d output(s) after the history (%s), %d in an empty build directory (%s)" %
                 (sum(len(x) for x in a), str(a)[:160], sum(len(x) for x in b), str(b)[:160]))
    if last["tasks"] != fresh["tasks"]: v.append("executed tasks %s after the history, %s fresh" % (last["tasks"], fresh["tasks"]))
    if fresh["rc"] == 0 and last["rc"] == 0:
        a = (last["ninja"] or b"").decode("utf-8", "replace"); b = (fresh["ninja"] or b"").decode("utf-8", "replace")
        if last["cache_hit"]:
            missing = stmts_of(b) - stmts_of(a)
            if missing: v.append("the ninja file left by the cache hit lacks %d statement(s) of a fresh run, e.g. %r" % (len(missing), sorted(missing)[0][:200]))
        elif a != b: v.append("regenerated ninja file differs from a fresh run's")
    return v

def binary_check(h, steps):
    """'never after the binary changed': the first run of a binary in a slot cannot be served from the cache"""
    seen = set(); v = []
    for i, (op, o) in enumerate(zip(h["ops"], steps)):
        if op["op"] != "run": continue
        key = (op["cli"].get("local") is not None, op.get("bin", 1))
        if o["cache_hit"] and key not in seen:
            v.append("step %d is served from a cache that another laze binary wrote" % i)
        seen.add(key)
    return v

# ---------------------------------------------------------------- generation of histories
def names_of(files):
    bl = [b["name"] for ds in files.values() for d in ds for b in (d.get("builders") or [])]
    al = [a["name"] for ds in files.values() for d in ds for a in (d.get("apps") or []) if a.get("name")]
    return bl, al

def mutate_docs(rng, docs, kind):
    """a new version of a file's documents"""
    d = copy.deepcopy(docs)
    cands = [(key, x) for doc in d for key in ("contexts", "builders", "modules", "apps") for x in (doc.get(key) or [])]
    if kind == "touch" or not cands: return d
    key, x = rng.choice(cands)
    if kind == "env":
        val = ["-Dedit%d" % rng.randrange(1000)]
        if key in ("contexts", "builders"): x.setdefault("env", {})["CFLAGS"] = val
        else:
            if not isinstance(x.get("env"), dict): x["env"] = {}
            if not isinstance(x["env"].get("global"), dict): x["env"]["global"] = {}
            x["env"]["global"]["CFLAGS"] = val
    elif kind == "source":
        mods = [m for doc in d for key in ("modules", "apps") for m in (doc.get(key) or [])]
        if mods: rng.choice(mods).setdefault("sources", []).append("edit%d.c" % rng.randrange(1000))
    elif kind == "break-load":
        ctxs = [c for doc in d for c in (doc.get("contexts") or []) + (doc.get("builders") or [])]
        if ctxs: rng.choice(ctxs)["parent"] = "no-such-context"
        else: d[0].setdefault("contexts", []).append({"name": "orphan", "parent": "no-such-context"})
    elif kind == "break-gen":
        ctxs = [c for doc in d for c in (doc.get("builders") or [])]
        if ctxs: rng.choice(ctxs).setdefault("env", {})["CFLAGS"] = "${no_such_variable}"
        else:
            mods = [m for doc in d for key in ("apps",) for m in (doc.get(key) or [])]
            if mods: rng.choice(mods).setdefault("env", {}).setdefault("global", {})["CFLAGS"] = "${no_such_variable}"
    elif kind == "add-app":
        d[0].setdefault("apps", None)
        if d[0]["apps"] is None: d[0]["apps"] = []
        d[0]["apps"].append({"name": "extra%d" % rng.randrange(100), "sources": ["extra.c"]})
    return d

def cli_variants(rng, base, bl, al):
    """argument vectors related to [base] the way the property's clauses need"""
    out = [dict(base)]
    def sub(l): return rng.sample(l, rng.randint(1, len(l)))
    for _ in range(3):
        c = dict(base)
        r = rng.random()
        if r < 0.3 and bl: c["builders"] = sub(bl)
        elif r < 0.5 and al: c["apps"] = sub(al)
        elif r < 0.65 and bl and al: c["builders"] = sub(bl); c["apps"] = sub(al)
        elif r < 0.70: c["builders"] = (sub(bl) if bl else []) + ["nosuchbuilder"]
        elif r < 0.75: c["apps"] = (sub(al) if al else []) + ["nosuchapp"]
        else: c.pop("builders", None); c.pop("apps", None)
        out.append(c)
    base_defs = base.get("define") or []
    defs = [["DBG=1", "VERB=1"], ["DBG=0", "VERB=0"], ["DBG=1", "VERB=0"], ["DBG=0", "VERB=1"], ["VERB=1", "DBG=1"],
            ["CFLAGS+=-Dcli"], ["CFLAGS=-Dcli"], ["CFLAGS+=-Da", "CFLAGS+=-Db"], ["CFLAGS+=-Da -Db"], ["LIBS=-lm"], ["LIBS+=-lm"],
            ["CFLAGS+=-Dcli", "X=1", "LIBS+=-lm"], ["X=${no_such_variable}"], ["novalue"]]
    good = [c for c in out if "nosuchbuilder" not in (c.get("builders") or []) and "nosuchapp" not in (c.get("apps") or [])]
    for _ in range(2):
        out.append(dict(rng.choice(good), define=rng.choice(defs)))
        good.append(out[-1])
    if rng.random() < 0.5:
        # the same text assigned and appended; one appended list against two appended elements
        c = rng.choice(good); v = rng.choice(["CFLAGS", "LIBS", "X"])
        pair = rng.choice([(["%s=-g" % v], ["%s+=-g" % v]), (["%s+=a" % v, "%s+=b" % v], ["%s+=a b" % v])])
        out += [dict(c, define=pair[0]), dict(c, define=pair[1])]
    # --select / --disable lists: single, several, the same names in another order, with a duplicate
    mods = ["m0", "m1", "m2", "m3", "?m2", "?m4"]
    if rng.random() < 0.6:
        sel = rng.sample(mods, rng.randint(1, 3)); c = rng.choice(good)
        out.append(dict(c, select=sel))
        if len(sel) > 1: out.append(dict(c, select=sel[::-1]))
        if rng.random() < 0.3: out.append(dict(c, select=sel + sel[:1]))
        good += out[-3:]
    if rng.random() < 0.5:
        # the same name selected as a hard and as an optional dependency: different command lines, although the names agree
        c = rng.choice(good); x = rng.choice(["m0", "m1", "m2", "m3", "m4", "nosuchmodule"]); rest = rng.sample(mods[:4], rng.randint(0, 1))
        pair = [dict(c, select=rest + [x]), dict(c, select=rest + ["?" + x])]
        rng.shuffle(pair); out += pair
    if rng.random() < 0.5:
        dis = rng.sample(mods[:4], rng.randint(1, 2)); c = rng.choice(good)
        out.append(dict(c, disable=dis))
        if len(dis) > 1: out.append(dict(c, disable=dis[::-1]))
    if rng.random() < 0.6:
        n = rng.randint(2, 3)
        out.append(dict(rng.choice(out[:4]), partition=(rng.randint(1, n), n)))
        out.append(dict(rng.choice(out[:4]), partition=(rng.randint(1, n), n)))
    return out

def gen_history(rng, faults=(1, 2, 3, 4, 5, 6, 7)):
    files, base_cli = genproj.gen_project(rng, focus=rng.choice([None, "build", "layout", "layout"]))
    files, tasknames = mcn.with_scripted_tasks(files, rng, force=rng.random() < 0.6)
    base_cli = {k: v for k, v in base_cli.items() if k in ("select", "disable", "define")}
    if rng.random() < 0.6: base_cli = {}
    bl, al = names_of(files)
    versions = {f: [docs] for f, docs in files.items()}
    tree = {f: 1 for f in files}
    # an imported directory is loaded from the first of laze-lib.yml, laze.yml, laze-project.yml that exists:
    # candidates that do not exist yet may appear (and go) during the history
    for f in list(files):
        if f.startswith("vendor/lib/") and f.count("/") == 2:
            for other in ("laze-lib.yml", "laze.yml"):
                g = "vendor/lib/" + other
                if g not in versions and rng.random() < 0.7:
                    versions[g] = [mutate_docs(rng, files[f], rng.choice(["source", "env", "touch"]))]
    clis = cli_variants(rng, base_cli, bl, al)
    nested_root = "vendor/lib/laze-project.yml" in files or "vendor/lib/laze-project.yml" in versions    # laze would take vendor/lib for the project root
    dirs = sorted({os.path.dirname(f) or "." for f in files if not (nested_root and f.startswith("vendor/"))})
    if len(dirs) > 1 and rng.random() < 0.5:
        # local mode (its own ninja file and cache, keyed by the start directory) next to global runs
        for _ in range(3):
            clis.append(dict(rng.choice(clis), local=rng.choice(dirs)))
    ops = []
    def scen():
        sc = {}
        if rng.random() < 0.15: sc["generate_only"] = True
        if rng.random() < 0.12: sc["info"] = True              # --info-export: the cache is not read, but written
        if tasknames and rng.random() < 0.3:
            sc["task"] = rng.choice(tasknames); sc["multiple"] = rng.random() < 0.7
            sc["keep_going"] = rng.choice([0, 1, 2])
            if bl and al and rng.random() < 0.4:
                sc["fail"] = [(rng.choice(bl), rng.choice(al))]
                if rng.random() < 0.3: sc["kill_tasks"] = True
        return sc
    def pick_cli():
        """often the arguments of an earlier run, or a narrowing of them: that is where hits come from"""
        runs = [o["cli"] for o in ops if o["op"] == "run"]
        r = rng.random()
        if runs and r < 0.3: return dict(runs[-1])
        if runs and r < 0.4: return dict(rng.choice(runs))
        if runs and r < 0.55:
            c = dict(rng.choice(runs))
            if "partition" not in c or rng.random() < 0.3:
                pool_b = c.get("builders") or bl; pool_a = c.get("apps") or al
                if pool_b and rng.random() < 0.7: c["builders"] = rng.sample(pool_b, rng.randint(1, len(pool_b)))
                if pool_a and rng.random() < 0.4: c["apps"] = rng.sample(pool_a, rng.randint(1, len(pool_a)))
            return c
        return rng.choice(clis)
    n = rng.randint(2, 6); curbin = [1]
    # a good first run most of the time so that there is a cache to talk about
    ops.append(dict(op="run", cli=clis[0] if rng.random() < 0.7 else rng.choice(clis), stop=0, sc=scen()))
    for _ in range(n):
        r = rng.random()
        if r < 0.3:
            f = rng.choice(list(versions))
            if rng.random() < 0.25 and len(versions[f]) > 1 or f not in tree:
                v = rng.randint(1, len(versions[f]))                       # revert to / re-add an earlier version
            else:
                kind = rng.choice(["env", "env", "source", "touch", "break-load", "break-gen", "add-app"])
                versions[f].append(mutate_docs(rng, versions[f][tree.get(f, 1) - 1], kind)); v = len(versions[f])
            tree = dict(tree); tree[f] = v
            ops.append(dict(op="edit", tree=dict(tree)))
        elif r < 0.33 and any(o["op"] == "run" for o in ops):
            ops.append(dict(op="corrupt", local=rng.random() < 0.3, size=rng.choice([0, 8, 15, 17, 40])))
        elif r < 0.38 and len(tree) > 1:
            f = rng.choice([x for x in tree if x != "laze-project.yml"])
            tree = dict(tree); del tree[f]
            ops.append(dict(op="edit", tree=dict(tree)))
        else:
            stop = rng.choice(faults) if rng.random() < 0.25 else 0
            if rng.random() < 0.08: curbin[0] += 1                         # from here on another laze binary
            ops.append(dict(op="run", cli=pick_cli(), stop=stop, sc=scen(), bin=curbin[0]))
    if rng.random() < 0.05: curbin[0] += 1
    ops.append(dict(op="run", cli=pick_cli(), stop=0, sc=scen(), bin=curbin[0]))
    return dict(versions=versions, tree0={f: 1 for f in files}, ops=ops)
