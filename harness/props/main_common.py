"""Shared end-to-end check for C16 (tasks) and C18 (ninja invocation): run `laze build ...` with a fake
ninja and scripted task commands, compare exit status, ninja argument vectors and executed tasks with the model."""
import copy, json, os, stat
from concurrent.futures import ThreadPoolExecutor
from .. import core, e2e, genproj, proj, directed

TASK_SCRIPT = """#!/bin/sh
echo "$1 $2" >> "$LAZE_VERIF_TASK_LOG"
case " $LAZE_VERIF_TASK_FAIL " in *" $1:$2 "*) exit 1;; esac
# a task whose shell dies from a signal (no exit code) has failed like any other
case " $LAZE_VERIF_TASK_KILL " in *" $1:$2 "*) kill -KILL $$;; esac
exit 0
"""
# (sourced, so that the script runs in the very shell laze started for the task)
TASK_CMD = 'set -- ${builder} ${app}; . "$LAZE_VERIF_TASK_SCRIPT"'

def with_scripted_tasks(files, rng, force=False):
    """replace every task's commands by the logging script; optionally add tasks"""
    f = copy.deepcopy(files); names = set()
    def fix(tasks):
        for n, t in tasks.items():
            expr = any("$(" in c for c in t.get("cmd") or [])       # keep an expression over the task's required variables
            t["cmd"] = [TASK_CMD + (" $(${PORT} + 1)" if expr else "")]; t.pop("workdir", None); names.add(n)
            # exported variables are kept (they are part of what the cache stores per task); some tasks get a few more
            # a task that handles ctrl-c itself (a debugger, a terminal): the flag changes how laze treats SIGINT while
            # the task runs, not what counts as a failure of the task
            if rng.random() < 0.3: t["ignore_ctrl_c"] = True
            if rng.random() < 0.5: t.pop("export", None)
            elif rng.random() < 0.5: t["export"] = (t.get("export") or []) + ["X", {"TASK_VAR": "v-${builder}"}]
    for docs in f.values():
        for d in docs:
            for c in (d.get("contexts") or []) + (d.get("builders") or []):
                if force and rng.random() < 0.4:
                    c.setdefault("tasks", {})[rng.choice(["t1", "t2"])] = genproj.rand_task(rng, ["m0", "m1"])
                if c.get("tasks"): fix(c["tasks"])
            for key in ("modules", "apps"):
                for m in d.get(key) or []:
                    if force and key == "apps" and rng.random() < 0.3:
                        m.setdefault("tasks", {})[rng.choice(["t1", "t3"])] = genproj.rand_task(rng, ["m0", "m1"])
                    if m.get("tasks"): fix(m["tasks"])
    return f, sorted(names)

def main_request(files, cli, laze, root, sc):
    fail = sc.get("fail", [])
    toks = ["main"] + proj.tree(files) + proj.cli(cli, "build", root, laze) + [
        core.hopt(sc.get("task")), proj.b(sc.get("generate_only", False)), proj.b(sc.get("multiple", False)), str(sc.get("keep_going", 1)),
        "-" if sc.get("jobs") is None else str(sc["jobs"]), str(sc.get("verbose", 0)), proj.b(sc.get("ninja_rc", 0) == 0),
        str(len(fail))] + [t for b, a in fail for t in (core.hexs(b), core.hexs(a))]
    return " ".join(toks)

def scenario_args(sc):
    a = []
    if sc.get("jobs") is not None: a += ["-j", str(sc["jobs"])]
    if "keep_going" in sc: a += ["-k", str(sc["keep_going"])]
    if sc.get("multiple"): a += ["-m"]
    a += ["-v"] * sc.get("verbose", 0)
    if sc.get("task"): a += [sc["task"]]
    return a

def run_scenarios(laze, driver, items):
    """items: list of (files, [ (cli, scenario) ... ]) run as a sequence in one directory.
    returns list of (files, cli, sc, impl_step, model_reply)"""
    def one(item):
        files, steps = item
        tmpdir_files = {}
        seq = []
        for cli, sc in steps:
            pairs_ = " ".join("%s:%s" % tuple(x) for x in sc.get("fail", []))
            env = {"LAZE_VERIF_TASK_FAIL": "" if sc.get("kill_tasks") else pairs_, "LAZE_VERIF_TASK_KILL": pairs_ if sc.get("kill_tasks") else ""}
            seq.append(dict(cli=cli, args=scenario_args(sc), generate_only=sc.get("generate_only", False), ninja_rc=sc.get("ninja_rc", 0), env=env, sc=sc))
        return item, run_seq_with_tasks(laze, files, seq)
    with ThreadPoolExecutor(core.NCPU) as ex:
        done = list(ex.map(one, items))
    reqs, flat = [], []
    for (files, steps), outs in done:
        for (cli, sc), o in zip(steps, outs):
            reqs.append(main_request(files, cli, laze, o["root"], sc)); flat.append((files, cli, sc, o))
    replies, _ = core.run_model_ev(laze, driver, reqs)
    return [(f, c, sc, o, rp) for (f, c, sc, o), rp in zip(flat, replies)]

def run_seq_with_tasks(laze, files, steps):
    import tempfile, shutil, subprocess
    tmp = tempfile.mkdtemp(prefix=e2e.SCRATCH_PREFIX); root = os.path.join(tmp, "p")
    out = []
    try:
        proj.render(files, root)
        bindir = os.path.join(tmp, "bin"); os.makedirs(bindir)
        nj = os.path.join(bindir, "ninja"); open(nj, "w").write(e2e.FAKE_NINJA); os.chmod(nj, 0o755)
        ts = os.path.join(tmp, "task.sh"); open(ts, "w").write(TASK_SCRIPT)
        for st in steps:
            c = st["cli"]
            start = os.path.join(root, c["local"]) if c.get("local") not in (None, ".") else root
            args = [laze, "-C", start, "build"] + ([] if c.get("local") is not None else ["-g"]) + (["-G"] if st.get("generate_only") else []) + proj.argv(c) + st["args"]
            nlog = os.path.join(tmp, "ninja.log"); tlog = os.path.join(tmp, "task.log")
            for p in (nlog, tlog):
                if os.path.exists(p): os.remove(p)
            env = e2e.clean_env(tmp)
            # "missing": there is no ninja to start at all (laze has to report that, with a non-zero exit status)
            env.update(PATH=("" if st.get("ninja_rc") == "missing" else bindir + ":") + env.get("PATH", ""), LAZE_VERIF_NINJA_LOG=nlog, LAZE_VERIF_NINJA_RC=str(st.get("ninja_rc", 0)),
                       LAZE_VERIF_TASK_SCRIPT=ts, LAZE_VERIF_TASK_LOG=tlog)
            env.update(st.get("env", {}))
            try:
                p = subprocess.run(args, env=env, capture_output=True, timeout=60)
                rc, so, se = p.returncode, p.stdout.decode("utf-8", "replace"), p.stderr.decode("utf-8", "replace")
            except subprocess.TimeoutExpired:
                rc, so, se = "timeout", "", ""
            argvs = [ln.split("\x1f") if ln else [] for ln in open(nlog).read().split("\n")[:-1]] if os.path.exists(nlog) else []
            tasks = [tuple(ln.split(" ", 1)) for ln in open(tlog).read().splitlines()] if os.path.exists(tlog) else []
            out.append(dict(rc=rc, stdout=so, stderr=se, ninja_argv=argvs, tasks=tasks, root=root, argv=args[1:], cache_hit=e2e.was_cache_hit(e2e.take_events(tmp), so),
                            ninja_missing=(st.get("ninja_rc") == "missing")))
        return out
    finally:
        shutil.rmtree(tmp, ignore_errors=True)

def parse_main_reply(rp):
    t = rp.split()
    if t[:1] != ["ok"]: return dict(kind=t[0] if t else "?", tag=" ".join(t[1:3]))
    exit_code = int(t[1]); n = int(t[2]); i = 3; ninja = []; tasks = []
    for _ in range(n):
        if t[i] == "N":
            k = int(t[i + 1]); ninja.append([core.unhexs(x) for x in t[i + 2:i + 2 + k]]); i += 2 + k
        else:
            tasks.append((core.unhexs(t[i + 1]), core.unhexs(t[i + 2]))); i += 3
    return dict(kind="ok", exit=exit_code, ninja=ninja, tasks=tasks)

def compare(o, m):
    """-> list of differences between the implementation's step and the model's outcome"""
    d = []
    if m["kind"] == "err":
        if o["rc"] != 1: d.append("model rejects the project (%s), implementation rc=%s" % (m["tag"], o["rc"]))
        return d
    if m["kind"] != "ok":
        return ["model outcome %s %s" % (m["kind"], m.get("tag"))]
    if o["rc"] != m["exit"]: d.append("exit status %s, model %s" % (o["rc"], m["exit"]))
    if o.get("ninja_missing"):
        if o["ninja_argv"]: d.append("a ninja was started although none is on PATH: %s" % o["ninja_argv"])
    elif o["ninja_argv"] != m["ninja"]: d.append("ninja invocations %s, model %s" % (o["ninja_argv"], m["ninja"]))
    if [tuple(x) for x in o["tasks"]] != m["tasks"]: d.append("executed tasks %s, model %s" % (o["tasks"], m["tasks"]))
    return d
