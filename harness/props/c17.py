"""C17 — defaults, context lists and sub-directories mean what their expansion means.
Metamorphic on the implementation: a project vs its manual expansion (defaults inlined, context lists
unrolled) must give byte-identical ninja files and the same builds; every run is compared with the model;
malformed structure (duplicates, unknown contexts/parents) must be rejected with exit status 1."""
import copy, json
from .. import core, e2e, genproj, directed
from . import gen_common

LIST_FIELDS = ["selects", "uses", "sources", "provides", "provides_unique", "conflicts", "allowlist", "blocklist"]

def merge_val(old, new):
    if isinstance(old, list) and isinstance(new, list): return old + new
    return new

EARLY = ("${relpath}", "${root}", "${srcdir}")

def combine(D, m):
    """textual combination: lists of D first, env of D merged with the own one, scalars own"""
    out = copy.deepcopy(m)
    for fld in LIST_FIELDS:
        if fld in D: out[fld] = list(D[fld]) + list(out.get(fld) or [])
    for scope, e in (D.get("env") or {}).items():
        me = out.setdefault("env", {}).setdefault(scope, {})
        merged = dict(e)
        for k, v in me.items():
            merged[k] = merge_val(merged[k], v) if k in merged else v
        out["env"][scope] = merged
    if "context" in D and "context" not in out: out["context"] = D["context"]
    if D.get("notify_all"): out["notify_all"] = True
    return out

def resolve_removals(m):
    """'-name' entries written out: the entries whose target is `name` (plain, optional, or inside a conditional map) and
    the '-name' entry itself are dropped. Returns m unchanged where that is not a purely textual operation (the name also
    occurs under depends:, whose entries feed two lists)."""
    out = copy.deepcopy(m)
    dep_targets = set()
    for e in out.get("depends") or []:
        for t in ([e] if isinstance(e, str) else [x for v in e.values() for x in v]): dep_targets.add(t.lstrip("?"))
    for fld in ("selects", "uses"):
        lst = out.get(fld)
        if not lst: continue
        rem = [e[1:] for e in lst if isinstance(e, str) and e.startswith("-")]
        if not rem: continue
        if any(r.startswith("?") or r.startswith("-") or r in dep_targets for r in rem): return m
        new = []
        for e in lst:
            if isinstance(e, str):
                if e.startswith("-") or e.lstrip("?") in rem: continue
                new.append(e)
            else:
                d = {}
                for k, v in e.items():
                    kept = [x for x in v if x.lstrip("?") not in rem and not x.startswith("-")]
                    if any(x.startswith("-") for x in v): return m
                    if kept: d[k] = kept
                if d: new.append(d)
        out[fld] = new
    return out

def inline_defaults(files):
    """-> files with every `defaults:` (own or inherited through subdirs/includes) written out in the
    modules and apps; None when the textual inlining is not exactly equivalent"""
    import posixpath
    f2 = copy.deepcopy(files)
    # the load order and who lists whom (first lister wins), as data.rs does it
    docs = []            # (file, doc, included_by index)
    pending = [("laze-project.yml", None, None)]; pos = 0
    loaded = set()
    while pos < len(pending):
        fn, inc, root = pending[pos]; pos += 1
        if fn not in f2: return None
        if fn in loaded: return None          # one file under two import roots: its documents would be inlined twice
        loaded.add(fn)
        start = len(docs)
        for d in f2[fn]: docs.append((fn, d, inc))
        base = posixpath.dirname(fn)
        for i in range(start, len(docs)):
            d = docs[i][1]
            for sdir in d.get("subdirs") or []:
                n = posixpath.join(base, sdir, "laze.yml")
                if all((n, root) != (p[0], p[2]) for p in pending): pending.append((n, i, root))
            for imp in d.get("imports") or []:
                cands = [posixpath.join(imp["path"], x) for x in ("laze-lib.yml", "laze.yml", "laze-project.yml")]
                found = [c for c in cands if c in f2]
                if not found or imp.get("symlink"): return None
                n = found[0]; r = posixpath.dirname(n)
                if all((n, r) != (p[0], p[2]) for p in pending): pending.append((n, i, r))
            for incf in d.get("includes") or []:
                n = posixpath.join(base, incf)
                if all((n, root) != (p[0], p[2]) for p in pending): pending.append((n, i, root))
    eff = {}             # doc index -> {kind: defaults dict} handed on to listed files (only docs with subdirs)
    changed = False
    for i, (fn, d, inc) in enumerate(docs):
        df = d.pop("defaults", None) or {}
        mine = {}
        for kind in ("module", "app"):
            inherited = eff.get(inc, {}).get(kind) if inc is not None else None
            own = df.get(kind)
            if own is not None:
                if "depends" in own: return None
                if inherited is not None and any(e in json.dumps(inherited) for e in EARLY): return None
                mine[kind] = combine(inherited, own) if inherited is not None else own
            elif inherited is not None:
                if posixpath.dirname(fn) != posixpath.dirname(docs[inc][0]) and any(e in json.dumps(inherited) for e in EARLY): return None
                mine[kind] = inherited
        if d.get("subdirs") is not None: eff[i] = mine
        for key, kind in (("modules", "module"), ("apps", "app")):
            D = mine.get(kind)
            if not D: continue
            if key in d and d[key] is None:
                # a bare `apps:` / `modules:` declares one unnamed entry (named after its directory): under defaults it is
                # that entry with the defaults written out
                if not posixpath.dirname(fn): return None
                d[key] = [resolve_removals(combine(D, {}))]; changed = True
                continue
            if d.get(key):
                d[key] = [resolve_removals(combine(D, m)) for m in d[key]]; changed = True
    return f2 if changed else None

def unroll_context_lists(files):
    f2 = copy.deepcopy(files); changed = False
    for docs in f2.values():
        for d in docs:
            for key in ("modules", "apps"):
                if not d.get(key): continue
                new = []
                for m in d[key]:
                    if isinstance(m.get("context"), list):
                        changed = True
                        for c in m["context"]:
                            mm = copy.deepcopy(m); mm["context"] = c; new.append(mm)
                    else:
                        new.append(m)
                d[key] = new
    return f2 if changed else None

def malformed(rng):
    R = directed.RULES
    base = lambda **kw: {"laze-project.yml": [dict({"contexts": [{"name": "default", "rules": R}], "builders": [{"name": "b"}],
                                                     "apps": [{"name": "app", "sources": ["main.c"]}]}, **kw)]}
    out = []
    f = base(); f["laze-project.yml"][0]["contexts"].append({"name": "default"}); out.append((f, "duplicate context"))
    f = base(); f["laze-project.yml"][0]["builders"].append({"name": "b"}); out.append((f, "duplicate builder"))
    f = base(modules=[{"name": "m"}, {"name": "m"}]); out.append((f, "duplicate module in a context"))
    f = base(modules=[{"name": "m", "context": "nosuch"}]); out.append((f, "unknown context"))
    f = base(); f["laze-project.yml"][0]["contexts"].append({"name": "c", "parent": "nosuch"}); out.append((f, "unknown parent"))
    f = base(modules=[{"name": "m", "context": ["b", "b"]}]); out.append((f, "context list naming one context twice"))
    f = base(subdirs=["sub"]); f["sub/laze.yml"] = [{"modules": [{"name": "m"}]}]; f["laze-project.yml"].append({"subdirs": ["sub"]}); out.append((f, None))   # listed twice: loaded once
    f = base(includes=["laze-project.yml"]); out.append((f, "self include: everything defined twice?"))
    return out

def run(rep, tier, seed, rng):
    core.proof_step(rep, "C17", clean=(tier == "thorough"))
    laze = core.build_impl(); driver = core.build_model()
    nproj = 200 if tier == "quick" else 2500
    pairs = []
    pool = [c for c in directed.cases_portable()]
    for k in range(nproj):
        f, c = pool[k] if k < len(pool) else genproj.gen_project(rng, focus=rng.choice([None, "layout", "env"]))
        v = inline_defaults(f)
        if v is not None and v != f: pairs.append(((f, c), (v, c), "defaults inlined"))
        u = unroll_context_lists(f)
        if u is not None: pairs.append(((f, c), (u, c), "context list unrolled"))
    layout = [genproj.gen_project(rng, focus="layout") for _ in range(60 if tier == "quick" else 800)] + pool
    ra = e2e.run_batch(laze, driver, [p[0] for p in pairs])
    rb = e2e.run_batch(laze, driver, [p[1] for p in pairs])
    rl = e2e.run_batch(laze, driver, layout)
    mal = malformed(rng)
    rm = e2e.run_batch(laze, driver, [(f, {}) for f, _ in mal])
    distinct = set(); ndis = 0
    for r in ra + rb + rl + rm:
        if r["tags"] & {"crash", "rc", "predicted-panic", "ninja", "configured", "modules", "order", "nobuilds"}:
            ndis += 1
            rep.violation("model and implementation disagree: " + "; ".join(r["dis"])[:300], gen_common.replay_data(r),
                          found_input=("crash" in r["tags"]))
    for (a, b, what), x, y in zip(pairs, ra, rb):
        bx = sorted((q["builder"], q["app"], q["out"], tuple(q["order"])) for q in x["impl"]["builds"])
        by = sorted((q["builder"], q["app"], q["out"], tuple(q["order"])) for q in y["impl"]["builds"])
        if x["impl"]["rc"] != y["impl"]["rc"] or x["impl_raw"]["ninja"] != y["impl_raw"]["ninja"] or bx != by:
            rep.violation("a project and its manual expansion (%s) are generated differently" % what,
                          dict(files=a[0], expanded=b[0], cli=a[1], what=what), found_input=True)
        if x["impl"]["rc"] == 0 and x["impl"]["builds"]: distinct.add(json.dumps(a, sort_keys=True))
    for (f, why), r in zip(mal, rm):
        if why and r["impl"]["rc"] != 1 and "self include" not in why:
            rep.violation("malformed structure (%s) is not rejected with exit status 1 (rc=%s)" % (why, r["impl"]["rc"]),
                          dict(files=f), found_input=True)
    rep.cov.update(evaluations=2 * len(pairs) + len(layout) + len(mal), distinct_nontrivial=len(distinct),
                   rule="directed + random projects with module/app defaults (same file) and context lists vs their manual expansion (lists of the defaults first, env merged, "
                        "contexts unrolled), multi-file layouts (subdirs two levels deep, includes, second document, inherited defaults, `apps:` null) against the model, and "
                        "structurally malformed projects; non-trivial = an expansion pair with >=1 configured build",
                   samples=[dict(what=pairs[0][2], cli=pairs[0][0][1])] if pairs else [], pairs=len(pairs), layouts=len(layout), malformed=len(mal), disagreements=ndis)
    rep.assumptions.append("inlining is compared only where it is textually exact: defaults in the same file, without `depends` (its position relative to `selects` would change)")
