from . import resolver_common
def run(rep, tier, seed, rng):
    resolver_common.run(rep, "C02", tier, seed, rng)
