"""C16 — tasks are offered and executed only where their requirements hold."""
import json
from .. import core, genproj, directed
from . import main_common as mcn

def run(rep, tier, seed, rng):
    core.proof_step(rep, "C16", clean=(tier == "thorough"))
    laze = core.build_impl(); driver = core.build_model()
    nproj = 70 if tier == "quick" else 900
    items = []
    while len(items) < nproj:
        f, c = genproj.gen_project(rng, focus=rng.choice([None, "env"]))
        f, tnames = mcn.with_scripted_tasks(f, rng, force=True)
        if not tnames: continue
        c = {x: v for x, v in c.items() if x not in ("builders", "apps")}
        bl = sorted({b["name"] for ds in f.values() for d in ds for b in (d.get("builders") or [])})
        al = sorted({a["name"] for ds in f.values() for d in ds for a in (d.get("apps") or []) if a.get("name")})
        steps = []
        for _ in range(4):
            cc = dict(c)
            if rng.random() < 0.5: cc["builders"] = sorted(rng.sample(bl, rng.randint(1, len(bl))))
            if rng.random() < 0.5 and al: cc["apps"] = rng.sample(al, rng.randint(1, len(al)))
            sc = {"task": rng.choice(tnames + ["nosuchtask"] if rng.random() < 0.1 else tnames), "multiple": rng.random() < 0.6,
                  "keep_going": rng.choice([0, 1, 1, 2, 3]), "ninja_rc": rng.choice([0, 0, 0, 1, "kill", "missing"])}
            pairs = [(b, a) for b in bl for a in al]
            sc["fail"] = rng.sample(pairs, rng.randint(0, min(3, len(pairs))))
            if sc["fail"] and rng.random() < 0.3: sc["kill_tasks"] = True       # the failing tasks die from a signal instead of exiting 1
            if rng.random() < 0.15: sc["generate_only"] = True
            steps.append((cc, sc))
        items.append((f, steps))
    # directed: a task that asks laze to leave ctrl-c to it (ignore_ctrl_c) and whose shell dies from a signal has failed
    # like any other; the same task exiting 1; its sibling without the flag
    df = directed.base([], [{"name": "app", "sources": ["main.c"], "tasks": {"dbg": {"cmd": [mcn.TASK_CMD], "ignore_ctrl_c": True},
                                                                              "run": {"cmd": [mcn.TASK_CMD]}}}])
    dsteps = []
    for task in ("dbg", "run"):
        for kill in (True, False):
            for multiple, kg in ((True, 1), (True, 0), (False, 1)):
                dsteps.append(({} if multiple else {"builders": ["b0"]},
                               {"task": task, "multiple": multiple, "keep_going": kg, "ninja_rc": 0, "fail": [("b0", "app")], "kill_tasks": kill}))
    items.insert(0, (df, dsteps))
    results = mcn.run_scenarios(laze, driver, items)
    distinct = set(); ndis = 0; nrun = 0
    for f, c, sc, o, rp in results:
        m = mcn.parse_main_reply(rp)
        if sc["task"] == "nosuchtask":
            if o["rc"] == 0: rep.violation("unknown task name accepted", dict(files=f, cli=c, scenario=sc), found_input=True)
            continue
        diffs = mcn.compare(o, m)
        if diffs:
            ndis += 1
            rep.violation("`laze build <task>` differs from the model: " + "; ".join(diffs)[:500],
                          dict(files=f, cli=c, scenario=sc, argv=o["argv"], stderr=o["stderr"][-300:]), found_input=(m["kind"] == "ok"))
        if m["kind"] == "ok" and len(m["tasks"]) >= 1:
            nrun += 1
            if len(m["tasks"]) >= 2 or sc["fail"]: distinct.add(json.dumps((f, c, sc), sort_keys=True))
    rep.cov.update(evaluations=len(results), distinct_nontrivial=len(distinct),
                   rule="random projects with tasks on contexts, builders and apps (required_vars / required_modules / build: false), commands replaced by a script that logs "
                        "(builder, app) and fails for a scripted set of pairs; per project 4 runs with random --builders/--apps, -m, -k 0..3, scripted ninja failures; exit "
                        "status, ninja argument vectors and the ordered list of executed tasks compared with the model; non-trivial = run executing >=2 tasks or with injected failures",
                   samples=[dict(cli=results[0][1], scenario=results[0][2], executed=results[0][3]["tasks"])] if results else [],
                   runs_executing_tasks=nrun, disagreements=ndis)
    rep.assumptions.append("task processes are real `sh -c` children running a logging script; signals, workdir and export of variables to the task environment are not compared")
