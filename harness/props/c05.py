"""C05 — local and exported variables do not leak beyond their scope. Metamorphic: edit one variable
of one module's local / export env, generate both projects, and check that only the statements of
that module (local) or of that module and its transitive users (export) changed."""
import copy, json
from .. import core, e2e, genproj, ninja_parse, proj, manifest_checks as mc
from . import gen_common

def all_module_dicts(files):
    for docs in files.values():
        for d in docs:
            for key in ("modules", "apps"):
                for m in (d.get(key) or []):
                    yield m

def own_sources(m):
    """source file names attributable to this module only (generator naming)"""
    n = m.get("name")
    out = set()
    for s in m.get("sources") or []:
        items = [s] if isinstance(s, str) else [x for v in s.values() for x in v]
        for x in items:
            if x.startswith(n + ".") or x.startswith("opt_" + n) or x.startswith("main") or x.lower().startswith(n.lower()):
                out.add(x)
    return out

def stmts_by_source(parsed):
    """source basename -> sorted list of (rule content, outs, deps) of its compile statements"""
    rules = {r["name"]: tuple(sorted(r["vars"].items())) for r in parsed["rules"]}
    out = {}
    for b in mc.compile_stmts(parsed):
        base = b["inputs"][0].rsplit("/", 1)[-1]
        out.setdefault(base, []).append((ninja_parse.base_name(b["rule"]), rules.get(b["rule"]), tuple(b["outs"]), tuple(b["deps"])))
    return {k: sorted(v, key=str) for k, v in out.items()}

def run(rep, tier, seed, rng):
    core.proof_step(rep, "C05", clean=(tier == "thorough"))
    laze = core.build_impl(); driver = core.build_model()
    nproj = 120 if tier == "quick" else 1500
    base = []
    from .. import directed
    pool = directed.cases_portable()
    for k in range(nproj):
        f, c = pool[k] if k < len(pool) else genproj.gen_project(rng, focus=rng.choice(["env", "imports", "imports", "build"]))
        mods = [m for m in all_module_dicts(f) if m.get("name") and own_sources(m) and "build" not in m]
        if k < len(pool):
            mods = [m for m in mods if m.get("env", {}).get("export")] or mods
        if not mods: continue
        # directed cases are small: every candidate module is edited in turn (up to three); random projects: one
        for m in (rng.sample(mods, min(3, len(mods))) if k < len(pool) else [rng.choice(mods)]):
            menv = m.get("env", {})
            if k < len(pool):
                # directed cases are small: both scopes the module writes are edited, on a variable it defines there
                edits = [(sc, rng.choice(sorted(menv[sc]))) for sc in ("export", "local") if menv.get(sc)] or [(rng.choice(["local", "export"]), rng.choice(["CFLAGS", "X"]))]
            else:
                edits = [(rng.choice(["local", "export"]), rng.choice(["CFLAGS", "X", "OPT", "Y"]))]
            for scope, var in edits:
                f2 = copy.deepcopy(f)
                # locate the same module in the copy (same position)
                idx = [id(x) for x in all_module_dicts(f)].index(id(m))
                m2 = list(all_module_dicts(f2))[idx]
                env = m2.setdefault("env", {}).setdefault(scope, {})
                env[var] = "EDITED-%s" % scope
                base.append((f, c, f2, m["name"], scope, var))
    r1 = e2e.run_batch(laze, driver, [(b[0], b[1]) for b in base])
    r2 = e2e.run_batch(laze, driver, [(b[2], b[1]) for b in base])
    # import closures from the model, per configured build
    reqs, owner = [], []
    for i, (b, ra) in enumerate(zip(base, r1)):
        if ra["impl"]["rc"] != 0: continue
        for bd in ra["impl"]["builds"]:
            reqs.append(" ".join(["imports"] + proj.tree(b[0]) + proj.cli(b[1], "build", ra["impl_raw"]["root"], laze) + [core.hexs(bd["builder"]), core.hexs(bd["app"])]))
            owner.append(i)
    replies = core.run_model(driver, reqs)
    users = {}           # i -> set of module names that import M in some build (incl. M)
    for i, rp in zip(owner, replies):
        t = rp.split()
        if t[:1] != ["ok"]: continue
        k = 2; n = int(t[1]); M = base[i][3]
        for _ in range(n):
            name = core.unhexs(t[k]); cnt = int(t[k + 1]); imps = [core.unhexs(x) for x in t[k + 2:k + 2 + cnt]]; k += 2 + cnt
            if M in imps: users.setdefault(i, set()).add(name)
    distinct = set(); ndis = 0; nchanged = 0; ncompared = 0
    name_of = lambda src: src.split(".")[0][4:].split("_")[0] if src.startswith("opt_") else src.split(".")[0]
    for i, (b, ra, rb) in enumerate(zip(base, r1, r2)):
        for r in (ra, rb):
            if r["tags"] & {"crash", "rc", "predicted-panic", "ninja", "configured", "modules", "nobuilds"}:
                ndis += 1
                rep.violation("model and implementation disagree: " + "; ".join(r["dis"])[:300], gen_common.replay_data(r), found_input=("crash" in r["tags"]))
        if ra["impl_raw"]["ninja"] is None or rb["impl_raw"]["ninja"] is None or ra["impl"]["rc"] != 0 or rb["impl"]["rc"] != 0:
            continue
        if sorted((x["builder"], x["app"], tuple(x["order"])) for x in ra["impl"]["builds"]) != sorted((x["builder"], x["app"], tuple(x["order"])) for x in rb["impl"]["builds"]):
            rep.violation("editing a module's %s env changed which builds are configured or their modules" % b[4],
                          dict(files=b[0], cli=b[1], module=b[3], scope=b[4], var=b[5]), found_input=True)
            continue
        sa = stmts_by_source(ninja_parse.parse(ra["impl_raw"]["ninja"].decode("utf-8", "replace")))
        sb = stmts_by_source(ninja_parse.parse(rb["impl_raw"]["ninja"].decode("utf-8", "replace")))
        M, scope = b[3], b[4]
        allowed = {M} if scope == "local" else (users.get(i, set()) | {M})
        # sources attributable to exactly one module name
        attributable = {}
        for m in all_module_dicts(b[0]):
            if m.get("name"):
                for s in own_sources(m): attributable.setdefault(s, set()).add(m["name"])
        changed_any = False
        for src in set(sa) | set(sb):
            owners = attributable.get(src)
            if not owners: continue
            ncompared += 1
            if sa.get(src) != sb.get(src):
                changed_any = True
                if not (owners & allowed):
                    rep.violation("editing %s env variable %s of module %s changed the compile statement of %s (module %s), which neither is nor uses %s"
                                  % (scope, b[5], M, src, sorted(owners), M),
                                  dict(files=b[0], cli=b[1], module=M, scope=scope, var=b[5], source=src, before=str(sa.get(src))[:600], after=str(sb.get(src))[:600],
                                       allowed_modules=sorted(allowed)), found_input=True)
        if changed_any:
            nchanged += 1; distinct.add(json.dumps((b[0], b[1], M, scope), sort_keys=True))
    rep.cov.update(evaluations=2 * len(base), distinct_nontrivial=len(distinct),
                   rule="random projects; one module with own sources is picked, one variable (CFLAGS or X, both used by the CC rule) is set in its local or export env; "
                        "both projects are generated by the implementation; compile statements are grouped by source file and attributed to modules by the generator's naming; "
                        "the import closures come from the proved model; non-trivial = a pair whose edit actually changed some statement",
                   samples=[dict(module=base[0][3], scope=base[0][4], var=base[0][5], cli=base[0][1])] if base else [],
                   pairs=len(base), pairs_with_visible_change=nchanged, statements_compared=ncompared, disagreements=ndis)
    rep.assumptions.append("sources shared by several modules (x0.c, common.c) are not attributed and not compared")
