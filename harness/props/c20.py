"""C20 — command-line selections equal their in-file spelling; LAZE_* env spellings equal the flags.
Metamorphic on the implementation (pairs of runs must give byte-identical ninja files and the same
builds), every run also compared with the model."""
import copy, json, os
from concurrent.futures import ThreadPoolExecutor
from .. import core, e2e, genproj, proj
from . import gen_common

RESERVED = {"relpath", "relroot", "modules", "contexts"}

def merge_val(old, new):
    if isinstance(old, list) and isinstance(new, list): return old + new
    return new

def apply_define(env, assignment):
    if "+=" in assignment:
        k, v = assignment.split("+=", 1); new = [v]
    else:
        k, v = assignment.split("=", 1); new = v
    env[k] = merge_val(env[k], new) if k in env else new

def in_file_variant(files, cli, kind):
    """-> (files', cli') or None if the textual edit does not have exactly the documented effect"""
    f2 = copy.deepcopy(files); c2 = dict(cli)
    docs = [d for ds in f2.values() for d in ds]
    if any("apps" in d and d["apps"] is None for d in docs): return None
    if any((d.get("defaults") or {}).get("app") for d in docs): return None
    apps = [a for d in docs for a in (d.get("apps") or [])]
    if kind == "select":
        xs = c2.pop("select", None)
        if not xs or any(x.startswith("-") for x in xs): return None
        # open finding K20:cli-select-of-removed-name: an app that removes a name in-file ('-X') still gets X from
        # --select X (removals are applied per module when it is loaded; the command line comes later)
        removed = {e[1:].lstrip("?") for a in apps for fld in ("selects", "depends") for e in (a.get(fld) or []) if isinstance(e, str) and e.startswith("-")}
        if removed & {x.lstrip("?") for x in xs}: return None
        for a in apps:
            a["selects"] = list(xs) + list(a.get("selects") or [])
    elif kind == "disable":
        ys = c2.pop("disable", None)
        if not ys: return None
        for d in docs:
            for b in (d.get("builders") or []):
                b["disables"] = list(b.get("disables") or []) + list(ys)
            for c in (d.get("contexts") or []):
                if c.get("is_builder"): c["disables"] = list(c.get("disables") or []) + list(ys)
    elif kind == "define":
        vs = c2.pop("define", None)
        if not vs: return None
        if any(v.split("=", 1)[0].rstrip("+") in RESERVED for v in vs): return None
        if any(("${relpath}" in v or "${root}" in v or "${srcdir}" in v or "\\" in v) for v in vs): return None
        cenv = {}
        for v in vs: apply_define(cenv, v)
        for a in apps:
            g = a.setdefault("env", {}).setdefault("global", {})
            for k, val in cenv.items():
                # merging is not associative for (list, single, list): the textual merge equals the CLI
                # layering only if the app does not hold a single value that a += would hit
                if k in g and isinstance(g[k], str) and isinstance(val, list): return None
                g[k] = merge_val(g[k], val) if k in g else val
    return f2, c2

def env_spelling(cli):
    """-> (cli without the flags, env dict) using LAZE_* variables; None if not expressible"""
    c2 = dict(cli); env = {}
    for key, var in (("select", "LAZE_SELECT"), ("disable", "LAZE_DISABLE"), ("builders", "LAZE_BUILDERS"), ("apps", "LAZE_APPS")):
        if c2.get(key):
            if any("," in x for x in c2[key]): return None
            env[var] = ",".join(c2.pop(key))
    if c2.get("define"):
        if len(c2["define"]) != 1: return None          # LAZE_DEFINE has no delimiter: one assignment
        env["LAZE_DEFINE"] = c2.pop("define")[0]
    return (c2, env) if env else None

def run_with_env(laze, files, cli, env_extra):
    import tempfile, shutil, subprocess
    tmp = tempfile.mkdtemp(prefix=e2e.SCRATCH_PREFIX); root = os.path.join(tmp, "p")
    try:
        proj.render(files, root)
        env = e2e.clean_env(tmp); env.update(env_extra)
        args = [laze, "-C", root, "build", "-g", "-G", "--info-export", os.path.join(tmp, "info.json")] + proj.argv(cli)
        p = subprocess.run(args, env=env, capture_output=True, timeout=60)
        nf = os.path.join(root, "build", "build-global.ninja")
        info = json.load(open(os.path.join(tmp, "info.json"))) if os.path.exists(os.path.join(tmp, "info.json")) else None
        return dict(rc=p.returncode, ninja=(open(nf, "rb").read() if os.path.exists(nf) else None), info=info, argv=args[1:], env=env_extra)
    finally:
        shutil.rmtree(tmp, ignore_errors=True)

def comma_variant(cli):
    """flags given once with comma-separated values instead of repeated flags"""
    extra = []; c2 = dict(cli)
    for key, flag in (("select", "--select"), ("disable", "--disable"), ("builders", "-b"), ("apps", "-a")):
        if c2.get(key) and len(c2[key]) > 1 and not any("," in x for x in c2[key]):
            extra += [flag, ",".join(c2.pop(key))]
    return (c2, extra) if extra else None

def witness_select_of_removed(laze):
    """--select X for an app that removes X in-file: the command line selects X, the in-file spelling does not"""
    from .. import directed
    f = directed.base([{"name": "x", "sources": ["x.c"]}], [{"name": "app", "sources": ["main.c"], "selects": ["-x"]}])
    a = e2e.run_laze(laze, f, {"select": ["x"]}, info=False)
    f2 = copy.deepcopy(f); f2["laze-project.yml"][0]["apps"][0]["selects"] = ["x", "-x"]
    b = e2e.run_laze(laze, f2, {}, info=False)
    return a["rc"] == 0 and b["rc"] == 0 and a["ninja"] != b["ninja"]

KNOWN = {"K20:cli-select-of-removed-name": witness_select_of_removed}

def run(rep, tier, seed, rng):
    core.proof_step(rep, "C20", clean=(tier == "thorough"))
    laze = core.build_impl(); driver = core.build_model()
    nproj = 150 if tier == "quick" else 2000
    names = ["m0", "m1", "m2", "f0"]
    base = []
    from .. import directed
    for f, c in directed.cases_portable():
        for kind in ("select", "disable", "define"):
            if c.get(kind): base.append((f, c, kind))
    for _ in range(nproj):
        f, c = genproj.gen_project(rng, focus=rng.choice([None, "env", "conflicts"]))
        c = {k: v for k, v in c.items() if k in ("builders", "apps")}
        kind = rng.choice(["select", "disable", "define"])
        app_sel = [x for ds in f.values() for d in ds for a in (d.get("apps") or []) for x in (a.get("selects") or []) if isinstance(x, str)]
        if kind == "select" and app_sel and rng.random() < 0.5:
            c["select"] = [rng.choice(app_sel) for _ in range(rng.randint(1, 2))]      # names the app lists itself
        elif kind == "select": c["select"] = [("?" if rng.random() < 0.3 else "") + rng.choice(names) for _ in range(rng.randint(1, 3))]
        elif kind == "disable": c["disable"] = [rng.choice(names) for _ in range(rng.randint(1, 2))]
        else: c["define"] = [rng.choice(["CFLAGS", "X", "LIBS", "NEWVAR"]) + rng.choice(["=", "+="]) + rng.choice(["d1", "d 2", "${X}", "", "é", "-Wl,-Map=app.map", "a,b,c", "k=v", "x+=y", ",", "--opt=1,2", "two  blanks", " lead", "trail ", "G=\"hello world\"", "user,id=net0,fwd=tcp::1-:2", "A=1,B=2", "v,netdev+=n0"]) for _ in range(rng.randint(1, 3))]
        if kind == "define" and rng.random() < 0.3:
            # the same variable assigned and then appended to on one command line (the -D list is folded into one env first)
            v = rng.choice(["CFLAGS", "X", "LIBS"]); c["define"] = [v + "=" + rng.choice(["d1", "", "a b"]), v + "+=" + rng.choice(["d2", "-g"])] + ([v + "+=d3"] if rng.random() < 0.3 else [])
        base.append((f, c, kind))
    pairs = []
    for f, c, kind in base:
        v = in_file_variant(f, c, kind)
        if v: pairs.append(((f, c), v, kind))
    ra = e2e.run_batch(laze, driver, [p[0] for p in pairs])
    rb = e2e.run_batch(laze, driver, [p[1] for p in pairs])
    distinct = set(); ndis = 0; nenv = 0; ncomma = 0
    for (a, b, kind), x, y in zip(pairs, ra, rb):
        for r in (x, y):
            if r["tags"] & {"crash", "rc", "predicted-panic", "ninja", "configured", "modules", "order", "nobuilds"}:
                ndis += 1
                rep.violation("model and implementation disagree: " + "; ".join(r["dis"])[:300], gen_common.replay_data(r), found_input=("crash" in r["tags"]))
        same_rc = x["impl"]["rc"] == y["impl"]["rc"]
        bx = sorted((q["builder"], q["app"], q["out"]) for q in x["impl"]["builds"]); by = sorted((q["builder"], q["app"], q["out"]) for q in y["impl"]["builds"])
        if not same_rc or x["impl_raw"]["ninja"] != y["impl_raw"]["ninja"] or bx != by:
            rep.violation("--%s on the command line and its in-file spelling give different %s" %
                          (kind, "exit status" if not same_rc else "builds" if bx != by else "ninja files"),
                          dict(kind=kind, cli=a[1], files=a[0], in_file_cli=b[1], in_file_files=b[0]), found_input=True)
        if x["impl"]["rc"] == 0 and x["impl"]["builds"]:
            distinct.add(json.dumps(a, sort_keys=True))
    # flag vs environment spelling, repeated flags vs comma-separated
    jobs = []
    for (f, c, kind), x in zip([(p[0][0], p[0][1], p[2]) for p in pairs], ra):
        es = env_spelling(c)
        if es: jobs.append(("env", f, c, es, x))
        cv = comma_variant(c)
        if cv: jobs.append(("comma", f, c, cv, x))
    def one(j):
        mode, f, c, v, x = j
        if mode == "env":
            return j, run_with_env(laze, f, v[0], v[1])
        r = e2e.run_laze(laze, f, v[0], extra_args=v[1])
        return j, r
    with ThreadPoolExecutor(core.NCPU) as ex:
        outs = list(ex.map(one, jobs))
    for (mode, f, c, v, x), r in outs:
        if mode == "env": nenv += 1
        else: ncomma += 1
        if r["rc"] != x["impl_raw"]["rc"] or r["ninja"] != x["impl_raw"]["ninja"] or r["info"] != x["impl_raw"]["info"]:
            rep.violation(("LAZE_* environment spelling" if mode == "env" else "comma-separated flag values") + " differ from the repeated flags",
                          dict(files=f, cli=c, variant=str(v[1] if mode == "comma" else v[1])), found_input=True)
    # open known findings: do the witnesses still reproduce? (one that reproduces without being listed is a violation)
    open_known = {k["key"] for k in core.load_known() if k.get("property") == "C20" and k.get("status") == "open"}
    wit = {}
    for key, fn in KNOWN.items():
        try: wit[key] = bool(fn(laze))
        except Exception as e: wit[key] = "error: %s" % e
        if wit[key] is True and key not in open_known:
            rep.violation("--select on the command line and its in-file spelling give different ninja files (%s)" % key, dict(witness=key), found_input=True)
    rep.cov.update(known_finding_witnesses=wit)
    rep.cov.update(evaluations=2 * len(pairs) + len(jobs), distinct_nontrivial=len(distinct),
                   rule="random projects with a random --select / --disable / -D list (1-3 entries, optional and repeated names, list and single assignments); the in-file "
                        "spelling is produced by editing the YAML (select: in front of every app's selects; disable: appended to every builder's disables; define: merged at "
                        "the end of every app's global env) and both are generated by the implementation; plus LAZE_SELECT/DISABLE/DEFINE/BUILDERS/APPS and comma-separated "
                        "spellings; non-trivial = a pair with >=1 configured build",
                   samples=[dict(kind=pairs[0][2], cli=pairs[0][0][1], in_file_cli=pairs[0][1][1])] if pairs else [],
                   pairs=len(pairs), env_spellings=nenv, comma_spellings=ncomma, disagreements=ndis)
    rep.assumptions.append("pairs are restricted to projects without app defaults and without `apps:` null entries; defines avoid reserved/early variables and the "
                           "(single in app env, += on the command line) combination where merging is not associative (documented boundary of the property)")
