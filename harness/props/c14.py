"""C14 — var_options rendering. Oracle-level correspondence on Env::flatten_with_opts."""
import itertools
from .. import core
from ..core import hexs, hopt

FIELDS = ["from", "joiner", "prefix", "suffix", "start", "end"]

def envkey(v):
    if v is None: return "-"
    if isinstance(v, str): return "S " + hexs(v)
    return "L %d" % len(v) + "".join(" " + hexs(x) for x in v)

def request(opts, env, use_opts=True):
    """opts: list of (key, dict field->str); env: list of (key, value)"""
    parts = ["flatten", str(len(opts))]
    for k, o in opts:
        parts.append(hexs(k))
        parts.extend(hopt(o.get(f)) for f in FIELDS)
    parts.append("opts" if use_opts else "noopts")
    parts.append(str(len(env)))
    for k, v in env:
        parts.append(hexs(k)); parts.append(envkey(v))
    return " ".join(parts)

POOL = ["", "a", "b b", "é", "-", ",", " ", "${x}", "x,y", "日本"]

def rand_str(rng):
    if rng.random() < 0.7:
        return rng.choice(POOL)
    return "".join(rng.choice("ab ,;-é$") for _ in range(rng.randint(0, 6)))

def gen(rng, tier):
    cases = []   # (request, meta)
    elems = ["", "a", "b b"]
    maxlen = 3 if tier == "quick" else 4
    fixed = dict(joiner=",", prefix="-I", suffix=";", start="<", end=">")
    names = list(fixed)
    lists = [list(t) for n in range(maxlen + 1) for t in itertools.product(elems, repeat=n)]
    for l in lists:
        for mask in range(32):
            o = {names[i]: fixed[names[i]] for i in range(5) if mask >> i & 1}
            cases.append((request([("v", o)], [("v", l)]), dict(kind="exhaustive", list=l, opts=o)))
    for s in elems:
        for mask in range(32):
            o = {names[i]: fixed[names[i]] for i in range(5) if mask >> i & 1}
            cases.append((request([("v", o)], [("v", s)]), dict(kind="exhaustive-single", list=s, opts=o)))
    nrand = 1500 if tier == "quick" else 40000
    for _ in range(nrand):
        nvars = rng.randint(1, 3)
        keys = ["v%d" % i for i in range(nvars)]
        env = []
        for k in keys:
            r = rng.random()
            if r < 0.15: v = rand_str(rng)
            elif r < 0.2: v = None
            else: v = [rand_str(rng) for _ in range(rng.randint(0, 7))]
            env.append((k, v))
        opts = []
        for k in keys + ["w"]:
            if rng.random() < 0.7:
                o = {}
                for f in FIELDS[1:]:
                    if rng.random() < 0.5: o[f] = rand_str(rng)
                if rng.random() < 0.15:
                    o["from"] = rng.choice(keys + ["nosuch"])
                opts.append((k, o))
        # at most one from: per request (error precedence between several is map-order dependent)
        seen_from = False
        for k, o in opts:
            if "from" in o:
                if seen_from: del o["from"]
                seen_from = True
        cases.append((request(opts, env, use_opts=rng.random() < 0.95), dict(kind="random", env=env, opts=opts)))
    return cases

def norm(reply):
    if reply.startswith("err from-"): return "err from"
    if reply.startswith("err other"): return "err other"
    return reply

def nontrivial(meta):
    if meta["kind"] == "exhaustive":
        return "" in meta["list"] and len(meta["opts"]) >= 1
    if meta["kind"] == "random":
        return any(isinstance(v, list) and "" in v for _, v in meta["env"]) and any(o for _, o in meta["opts"])
    return False

def run(rep, tier, seed, rng):
    proof_ok = core.proof_step(rep, "C14", clean=(tier == "thorough"))
    laze = core.build_impl()
    driver = core.build_model()
    cases = gen(rng, tier)
    reqs = [c[0] for c in cases]
    impl = core.run_impl_oracle(laze, reqs)
    model = core.run_model(driver, reqs)
    nvm, vmbad = core.vm_crosscheck(reqs, model, n=30)
    for b in vmbad:
        rep.violation("extraction/driver cross-check failed: " + b, {}, found_input=False)
    distinct = set()
    kinds = {}
    for (req, meta), a, b in zip(cases, impl, model):
        kinds[meta["kind"]] = kinds.get(meta["kind"], 0) + 1
        if nontrivial(meta): distinct.add(req)
        if norm(a) != norm(b):
            # the model's output is the specification (theorem C14_flatten_spec / C14_env), so a
            # different rendering by the implementation is a failing input of the property
            rep.violation("var_options rendering differs from start ++ joined(prefix+v+suffix) ++ end",
                          dict(request=req, case=meta, implementation=a, specification=b,
                               decode="tokens are hex-encoded; '.'=empty, '-'=absent"), found_input=True)
    # end to end: var_options declared on contexts / builders, inherited by descendants that define none
    from . import gen_common
    ecases = [c for c in gen_common.load_cases(rng, tier, 120, 2000, focus="env")]
    lz, dr, results = gen_common.run_cases(ecases)
    nopt = 0; ne2e = 0
    for c, r in zip(ecases, results):
        if any("var_options" in x for docs in c[0].values() for d in docs for x in (d.get("contexts") or []) + (d.get("builders") or [])):
            nopt += 1
        if r["tags"] & {"ninja", "crash", "rc"} and not (r["tags"] & {"configured", "modules", "nobuilds"}):
            ne2e += 1
            rep.violation("commands rendered with var_options (own or inherited from an ancestor context) differ from the model: " + "; ".join(r["dis"])[:300],
                          gen_common.replay_data(r), found_input=True)
    rep.cov.update(e2e_projects=len(ecases), e2e_projects_with_var_options=nopt, e2e_disagreements=ne2e)
    rep.cov.update(evaluations=len(cases), distinct_nontrivial=len(distinct),
                   rule="exhaustive lists (len<=%d over {'', 'a', 'b b'}) x 2^5 option subsets, plus random lists/options/from:; "
                        "non-trivial = list with an empty element and >=1 option; distinct = distinct request lines" % (3 if tier == "quick" else 4),
                   samples=[dict(request=cases[i][0], case=cases[i][1], reply=impl[i]) for i in (7, len(cases) // 2, len(cases) - 1)],
                   input_kinds=kinds, vm_compute_crosschecked=nvm,
                   exhaustive_part=True)
    rep.assumptions.append("correspondence is differential testing of Env::flatten_with_opts against the model; bounded by the generator")
