"""Shared end-to-end machinery for the generation properties (C03-C07, C10, C19): run the
corpus and generated projects, and hand each property the parsed files of both sides."""
import json, os
from .. import core, e2e, genproj, ninja_parse, directed

def load_cases(rng, tier, n_quick, n_thorough, focus=None, mix=2):
    corpus = json.load(open(os.path.join(core.VERIF, "corpus", "upstream.json")))
    cases = [(f, {}) for f in corpus.values()] + directed.cases()
    extra = os.path.join(core.VERIF, "corpus", "regressions.json")
    if os.path.exists(extra):
        cases += [(c["files"], c["cli"]) for c in json.load(open(extra))]
    n = n_quick if tier == "quick" else n_thorough
    cases += [genproj.gen_project(rng, focus=(focus if i % mix == 0 else None)) for i in range(n)]
    return cases

def run_cases(cases):
    laze = core.build_impl()
    driver = core.build_model()
    results = e2e.run_batch(laze, driver, cases)
    for r in results:
        r["impl_parsed"] = r["model_parsed"] = None
        if r["impl_raw"]["ninja"] is not None and r["impl"]["rc"] == 0:
            r["impl_text"] = r["impl_raw"]["ninja"].decode("utf-8", "replace")
            r["impl_parsed"] = ninja_parse.parse(r["impl_text"])
        if r["model"]["kind"] == "ok":
            r["model_text"] = r["model"]["file"].decode("utf-8", "replace")
            r["model_parsed"] = ninja_parse.parse(r["model_text"])
    return laze, driver, results

def same_builds(r):
    """both sides configured the same builds with the same module lists"""
    return not (r["tags"] & {"crash", "rc", "configured", "modules", "nobuilds", "predicted-panic"})

def replay_data(r, **kw):
    d = dict(files=r["files"], cli=r["cli"], argv=r["impl_raw"]["argv"], disagreements=r["dis"][:5])
    d.update(kw)
    return d

def stats(cases, results):
    kinds, nb = {}, 0
    for r in results:
        kinds[r["model"]["kind"]] = kinds.get(r["model"]["kind"], 0) + 1
        if r["model"]["kind"] == "ok": nb += len(r["model"]["builds"])
    return dict(model_outcomes=kinds, builds_configured=nb,
                files_byte_identical=sum(1 for r in results if r["model"]["kind"] == "ok" and "ninja" not in r["tags"] and not r["tags"] & {"rc", "crash"}))
