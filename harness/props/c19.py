"""C19 — generated and downloaded files are ordered before their users."""
import json
from .. import core, manifest_checks as mc
from . import gen_common

def run(rep, tier, seed, rng):
    core.proof_step(rep, "C19", clean=(tier == "thorough"))
    cases = gen_common.load_cases(rng, tier, 300, 5000, focus="build", mix=1)
    laze, driver, results = gen_common.run_cases(cases)
    distinct = set(); ndis = 0; ncycle = 0
    for c, r in zip(cases, results):
        if r["model"]["kind"] == "ok":
            ncycle += sum(1 for x in r["model"]["nobuilds"] if x[2] == "cycle")
        if r["impl_parsed"] and any(b["deps"] for b in mc.compile_stmts(r["impl_parsed"])):
            distinct.add(json.dumps(c, sort_keys=True))
        if r["tags"] & {"crash", "rc", "predicted-panic"}:
            ndis += 1
            rep.violation("model and implementation disagree: " + "; ".join(r["dis"])[:400], gen_common.replay_data(r), found_input=("crash" in r["tags"]))
            continue
        if r["model"]["kind"] == "ok" and r["impl"]["rc"] == 0:
            # a cycle among build dependencies drops the build (C19_reachable_cycle_drops): what the proved walk refuses
            # as a cycle must not be among the implementation's configured builds
            cyc = {(x[0], x[1]) for x in r["model"]["nobuilds"] if x[2] == "cycle"}
            emitted = [(b["builder"], b["app"]) for b in r["impl"]["builds"] if (b["builder"], b["app"]) in cyc]
            if emitted:
                ndis += 1
                rep.violation("builds with a cycle among their build dependencies are emitted instead of dropped: %s" % emitted[:4],
                              gen_common.replay_data(r, builds=emitted), found_input=True)
        if r["impl_parsed"] and r["impl"]["rc"] == 0:
            for clause, src, ds in mc.download_order(r["impl_parsed"], c[0], builds=r["impl"]["builds"]):
                ndis += 1
                rep.violation("a source inside a download directory is compiled without waiting for the download: %s (directory %s)" % (src, ds),
                              gen_common.replay_data(r, clause=clause), found_input=True)
        if r["impl_parsed"] and r["model_parsed"]:
            oi, om = mc.orderonly_view(r["impl_parsed"]), mc.orderonly_view(r["model_parsed"])
            same = gen_common.same_builds(r)
            if oi != om:
                keys = [k for k in set(oi) | set(om) if oi.get(k) != om.get(k)][:3]
                # a statement present on both sides whose order-only deps differ is a failing input
                both = [k for k in keys if k in oi and k in om]
                ndis += 1
                rep.violation("order-only dependencies differ from 'build-dep files of every (transitively) used build-dep module, global build deps everywhere' (C19)",
                              gen_common.replay_data(r, statements=[str(k) for k in keys], implementation=[str(oi.get(k)) for k in keys],
                                                     specification=[str(om.get(k)) for k in keys]),
                              found_input=bool(both) and same)
            elif "nobuilds" in r["tags"] or "configured" in r["tags"]:
                ndis += 1
                rep.violation("configured builds differ (build-dependency cycle handling): " + "; ".join(r["dis"])[:300],
                              gen_common.replay_data(r), found_input=("crash" in r["tags"]))
    rep.cov.update(evaluations=len(cases), distinct_nontrivial=len(distinct),
                   rule="corpus + random projects from the build-focused generator (custom builds with outs, is_build_dep / is_global_build_dep modules in random "
                        "uses/depends graphs, cycles among build deps); `|` sections of compile/link/custom statements compared with the proved model; "
                        "non-trivial = file with >=1 compile statement carrying order-only deps",
                   samples=[dict(cli=results[-1]["cli"])], disagreements=ndis, builds_dropped_for_cycles=ncycle, **gen_common.stats(cases, results))
    rep.assumptions.append("downloads: nothing is fetched; the ordering statements (tag files, phony statements for downloaded sources, aliases for sources "
                           "of other modules inside a download directory) are compared with the model and checked by the download_order predicate")
