"""C11 — allowlist/blocklist decision. Oracle-level correspondence on ContextBag::is_allowed
(exhaustive over small trees and lists in the thorough tier), plus a direct order-independence
check on the implementation's own replies."""
import itertools
from .. import core
from ..core import hexs, hopt

def req(ctxs, builder, bl, al):
    parts = ["allowed", str(len(ctxs))]
    for n, p in ctxs:
        parts += [hexs(n), hopt(p)]
    parts.append(hexs(builder))
    for l in (bl, al):
        parts.append("-" if l is None else "%d" % len(l) + "".join(" " + hexs(x) for x in l))
    return " ".join(parts)

def trees(maxn):
    """all parent assignments for contexts c0..c(n-1): parent is an earlier context, 'default' or none"""
    for n in range(1, maxn + 1):
        names = ["c%d" % i for i in range(n)]
        choices = [[None, "default"] + names[:i] for i in range(n)]
        for ps in itertools.product(*choices):
            yield list(zip(names, ps))

def list_choices(names, maxlen):
    out = [None]
    for k in range(0, maxlen + 1):
        for sub in itertools.permutations(names, k):
            out.append(list(sub))
    return out

def gen(rng, tier):
    cases = []
    if tier == "quick":
        ts = list(trees(4))
        for _ in range(5000):
            ctxs = rng.choice(ts)
            names = [n for n, _ in ctxs] + ["default", "nosuch"]
            b = rng.choice([n for n, _ in ctxs])
            def rl():
                if rng.random() < 0.2: return None
                return rng.sample(names, rng.randint(0, min(3, len(names))))
            bl, al = rl(), rl()
            grp = len(cases)
            cases.append((req(ctxs, b, bl, al), dict(ctxs=ctxs, b=b, bl=bl, al=al, grp=grp)))
            # a permuted twin for the direct order-independence check
            bl2 = None if bl is None else rng.sample(bl, len(bl))
            al2 = None if al is None else rng.sample(al, len(al))
            cases.append((req(ctxs, b, bl2, al2), dict(ctxs=ctxs, b=b, bl=bl2, al=al2, grp=grp)))
        # malformed: unknown parent, cycle, duplicate
        cases.append((req([("a", "b"), ("b", "a")], "a", None, None), dict(kind="cycle", grp=-1)))
        cases.append((req([("a", "zz")], "a", None, None), dict(kind="unknown-parent", grp=-2)))
        cases.append((req([("a", None), ("a", None)], "a", None, None), dict(kind="duplicate", grp=-3)))
    else:
        # exhaustive: every tree with <= 4 contexts, every builder, all lists of <= 2 names in every order,
        # and every chain-shaped tree of 4 with lists of <= 3
        for ctxs in trees(4):
            names = [n for n, _ in ctxs] + ["default"]
            deep = all(p is not None for _, p in ctxs[1:]) and len(ctxs) == 4
            lc = list_choices(names, 3 if deep else 2)
            for b in [n for n, _ in ctxs][-2:]:
                for bl in lc:
                    for al in lc:
                        key = (tuple(sorted(bl)) if bl is not None else None, tuple(sorted(al)) if al is not None else None)
                        cases.append((req(ctxs, b, bl, al), dict(ctxs=ctxs, b=b, bl=bl, al=al, grp=(id(ctxs), b, key))))
    return cases

def bit(reply):
    t = reply.split()
    if t[:1] != ["ok"]: return reply
    return "allowed" if t[1].startswith("allowed") else "blocked"

def run(rep, tier, seed, rng):
    core.proof_step(rep, "C11", clean=(tier == "thorough"))
    laze = core.build_impl()
    driver = core.build_model()
    cases = gen(rng, tier)
    reqs = [c[0] for c in cases]
    impl = core.run_impl_oracle(laze, reqs)
    model = core.run_model(driver, reqs)
    nvm, vmbad = core.vm_crosscheck(reqs, model, n=30)
    for b in vmbad:
        rep.violation("extraction/driver cross-check failed: " + b, {}, found_input=False)
    groups = {}
    nontrivial = set()
    outcomes = {}
    for (rq, meta), a, b in zip(cases, impl, model):
        outcomes[" ".join(a.split()[:2])] = outcomes.get(" ".join(a.split()[:2]), 0) + 1
        if meta.get("bl") and meta.get("al") and len(set(meta["bl"]) | set(meta["al"])) >= 2:
            nontrivial.add(rq)
        g = meta["grp"]
        if g in groups and bit(groups[g][1]) != bit(a):
            rep.violation("allow/block decision depends on the order of names in the lists",
                          dict(request_1=groups[g][0], reply_1=groups[g][1], request_2=rq, reply_2=a), found_input=True)
        groups.setdefault(g, (rq, a))
        if a != b:
            if bit(a) != bit(b):
                rep.violation("decision differs from the nearest-listed-ancestor table (theorem C11_decision_spec)",
                              dict(request=rq, case=meta, implementation=a, specification=b), found_input=True)
            else:
                rep.violation("is_allowed reports a different deciding context than the model",
                              dict(request=rq, case=meta, implementation=a, model=b), found_input=False)
    rep.cov.update(evaluations=len(cases), distinct_nontrivial=len(nontrivial),
                   rule=("random trees (<=4 contexts + default) x random lists (<=3 names incl. unknown ones), each with a permuted twin"
                         if tier == "quick" else
                         "exhaustive: all trees with <=4 contexts x last two builders x all ordered lists of <=2 names (<=3 on chains of 4), both lists") +
                        "; non-trivial = both lists non-empty naming >=2 contexts; distinct request lines",
                   exhaustive=(tier != "quick"),
                   samples=[dict(request=reqs[i], case=cases[i][1], reply=impl[i]) for i in (0, len(reqs) // 2, len(reqs) - 4)],
                   outcome_classes=outcomes, vm_compute_crosschecked=nvm)
    # end to end: which (builder, app) pairs are configured / not built because of the lists, incl. lists that
    # come from defaults: and are extended by the app's own (data.rs convert_module)
    from . import gen_common
    from .. import directed
    ecases = [c for c in gen_common.load_cases(rng, tier, 150, 2500) ]
    lz, dr, results = gen_common.run_cases(ecases)
    nlist = 0; ne2e = 0
    for c, r in zip(ecases, results):
        if any(("blocklist" in m or "allowlist" in m) for docs in c[0].values() for d in docs for m in (d.get("apps") or []) + [x for x in ((d.get("defaults") or {}).get("app"), (d.get("defaults") or {}).get("module")) if x]):
            nlist += 1
        if r["tags"] & {"configured", "nobuilds", "crash", "rc"}:
            ne2e += 1
            rep.violation("configured / not-built builds differ from the model (eligibility by allowlist, blocklist, ancestry): " + "; ".join(r["dis"])[:400],
                          gen_common.replay_data(r), found_input=gen_common.same_builds(r) is False)
    # the decision is a function of the tree and the lists, not of what was asked before: the directed corpus and the
    # projects with lists again on ONE worker thread (builds are then configured in definition order)
    from .. import e2e
    again = directed.cases() + [c for c in ecases[len(directed.cases()):] if any(("blocklist" in m or "allowlist" in m) for docs in c[0].values() for d in docs for m in (d.get("apps") or []))][:60]
    res1 = e2e.run_batch(lz, dr, again, threads=1)
    n1 = 0
    for c, r in zip(again, res1):
        if r["tags"] & {"configured", "nobuilds", "crash", "rc"}:
            n1 += 1
            rep.violation("configured / not-built builds differ from the model with one worker thread (builds configured in definition order): " + "; ".join(r["dis"])[:400],
                          gen_common.replay_data(r, threads=1), found_input=gen_common.same_builds(r) is False)
    rep.cov.update(e2e_projects=len(ecases), e2e_projects_with_lists=nlist, e2e_disagreements=ne2e, e2e_single_thread_runs=len(again), e2e_single_thread_disagreements=n1)
    rep.assumptions.append("ancestry requirement (app context must be the builder or an ancestor) is part of the configure model, see C01/C12 checks")
