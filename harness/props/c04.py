"""C04 — layer precedence. Oracle-level merge algebra + end-to-end: the variable values that reach
rule commands (CC: module env, LINK: global env) must be those of the proved model."""
import itertools, json
from .. import core, ninja_parse
from ..core import hexs
from . import gen_common

def envkey(v):
    if v is None: return "-"
    if isinstance(v, str): return "S " + hexs(v)
    return "L %d" % len(v) + "".join(" " + hexs(x) for x in v)

def run(rep, tier, seed, rng):
    core.proof_step(rep, "C04", clean=(tier == "thorough"))
    # --- oracle level: every combination of absent/single/list over 3 (quick) or 4 (thorough) layers, plus -D parsing
    vals = [None, "s1", "s2", ["a"], ["b", "c"], []]
    depth = 3 if tier == "quick" else 4
    reqs = ["mergekey %d %s" % (depth, " ".join(envkey(v) for v in combo)) for combo in itertools.product(vals, repeat=depth)]
    assigns = ["A=1", "A+=1", "A=", "A+=", "=x", "+=x", "A", "A==b", "A+==b", "A=+=b", "é=é", "A=1+=2", "A B=c d"]
    for _ in range(300):
        k = rng.randint(1, 4)
        reqs.append("assign %d %s" % (k, " ".join(hexs(rng.choice(assigns)) for _ in range(k))))
    laze = core.build_impl(); driver = core.build_model()
    a = core.run_impl_oracle(laze, reqs); b = core.run_model(driver, reqs)
    n_oracle = len(reqs)
    for rq, x, y in zip(reqs, a, b):
        if x != y:
            rep.violation("Env::merge / assign_from_string differs from the merge algebra (C04_merge_closed_form / C04_define)",
                          dict(request=rq, implementation=x, specification=y), found_input=True)
    # --- end to end
    cases = gen_common.load_cases(rng, tier, 250, 4000, focus="env")
    laze, driver, results = gen_common.run_cases(cases)
    distinct = set(); ndis = 0
    for c, r in zip(cases, results):
        txt = json.dumps(c[0])
        if txt.count('"env"') >= 3 and r["model"]["kind"] == "ok" and r["model"]["builds"]:
            distinct.add(json.dumps(c, sort_keys=True))
        if r["tags"] & {"crash", "rc", "predicted-panic"}:
            ndis += 1
            rep.violation("model and implementation disagree on the outcome: " + "; ".join(r["dis"])[:400],
                          gen_common.replay_data(r), found_input=("crash" in r["tags"]))
            continue
        if r["impl_parsed"] and r["model_parsed"]:
            ci = ninja_parse.commands(r["impl_parsed"]); cm = ninja_parse.commands(r["model_parsed"])
            if ci != cm:
                ndis += 1
                only_i = [x for x in ci if x not in cm][:4]; only_m = [x for x in cm if x not in ci][:4]
                rep.violation("variable values in rule commands differ from the layered merge (C04_global_layers / C04_module_layers)",
                              gen_common.replay_data(r, commands_only_in_implementation=only_i, commands_only_in_model=only_m),
                              found_input=gen_common.same_builds(r))
    rep.cov.update(evaluations=n_oracle + len(cases), distinct_nontrivial=len(distinct),
                   rule="oracle: all %d-layer stacks over {absent, 2 singles, 3 lists} (exhaustive) + -D assignment sequences; e2e: corpus + random projects "
                        "(half with the env-focused generator: 3 variables, list/single values on contexts, builders, module local/export/global, app, -D); "
                        "non-trivial = project with env on >=3 places and >=1 configured build; distinct abstract projects" % depth,
                   samples=[dict(request=reqs[5], reply=a[5]), dict(cli=results[-1]["cli"], commands=(ninja_parse.commands(results[-1]["impl_parsed"])[:4] if results[-1]["impl_parsed"] else None))],
                   oracle_requests=n_oracle, exhaustive_part=True, disagreements=ndis, **gen_common.stats(cases, results))
    rep.assumptions.append("env maps from the loader have unique keys (wf_env hypotheses of the layer theorems)")
    rep.assumptions.append("C04_ctx_env (inheritance root -> builder through finalize) is exercised end-to-end; its general theorem is pending")
