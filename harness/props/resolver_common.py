"""Shared end-to-end check for the resolver properties C01, C02, C12."""
import json, os
from .. import core, e2e, genproj, proj, directed

PROJ = {   # which disagreement tags belong to which property's projection
    "C01": {"crash", "rc", "configured", "modules", "nobuilds", "predicted-panic"},
    "C02": {"crash", "rc", "configured", "modules", "nobuilds", "predicted-panic"},
    "C12": {"crash", "rc", "configured", "modules", "order", "nobuilds", "predicted-panic"},
}

def nontrivial(case, res):
    """build with >=1 of {failed optional, provided dependency, if-then, conflict/disable}"""
    txt = json.dumps(case[0])
    feats = 0
    if '"?' in txt: feats += 1
    if '"provides' in txt: feats += 1
    if '"conflicts"' in txt or '"disables"' in txt or case[1].get("disable"): feats += 1
    return feats >= 1 and res["model"]["kind"] == "ok" and len(res["model"]["builds"]) >= 1

def checkmods_requests(laze, results):
    reqs, owners = [], []
    for i, r in enumerate(results):
        if r["impl"]["crashed"] or r["impl"]["rc"] != 0: continue
        for b in r["impl"]["builds"]:
            reqs.append(" ".join(["checkmods"] + proj.tree(r["files"]) + proj.cli(r["cli"], "build", r["impl_raw"]["root"], laze) +
                                 [core.hexs(b["builder"]), core.hexs(b["app"])] + proj.lst(b["order"])))
            owners.append((i, b))
    return reqs, owners

def run(rep, pid, tier, seed, rng):
    core.proof_step(rep, pid, clean=(tier == "thorough"))
    laze = core.build_impl()
    driver = core.build_model()
    corpus = json.load(open(os.path.join(core.VERIF, "corpus", "upstream.json")))
    cases = [(f, {}) for f in corpus.values()] + directed.cases()
    extra = os.path.join(core.VERIF, "corpus", "regressions.json")
    if os.path.exists(extra):
        cases += [(c["files"], c["cli"]) for c in json.load(open(extra))]
    n = 250 if tier == "quick" else 4000
    focus = {"C02": "conflicts"}.get(pid)
    cases += [genproj.gen_project(rng, focus=(focus if i % 2 == 0 else None)) for i in range(n)]
    results = e2e.run_batch(laze, driver, cases)
    # direct property check on the implementation's own module lists
    reqs, owners = checkmods_requests(laze, results)
    replies = core.run_model(driver, reqs)
    col = {"C01": 1, "C02": 2, "C12": 1}[pid]
    hyp_ok = 0
    for (i, b), rq, rp in zip(owners, reqs, replies):
        t = rp.split()
        if t[:1] != ["ok"]:
            continue
        if t[3] == "1": hyp_ok += 1
        if pid in ("C01", "C02") and t[col] == "0":
            r = results[i]
            what = ("configured build is not closed under its hard dependencies" if pid == "C01"
                    else "configured build contains a disabled / conflicting / doubly-unique-provided module")
            rep.violation(what, dict(builder=b["builder"], app=b["app"], modules=b["order"], files=r["files"], cli=r["cli"],
                                     argv=r["impl_raw"]["argv"], checker=rp, theorem_hypotheses_hold=(t[3] == "1")),
                          found_input=True)
    # correspondence in this property's projection
    ndis = 0
    for r in results:
        tg = r["tags"] & PROJ[pid]
        if tg:
            ndis += 1
            crash = "crash" in tg
            rep.violation("model and implementation disagree (%s): %s" % (",".join(sorted(tg)), "; ".join(r["dis"])[:600]),
                          dict(files=r["files"], cli=r["cli"], argv=r["impl_raw"]["argv"], model=r["reply"][:2000],
                               impl_stdout=r["impl_raw"]["stdout"][-1500:], impl_stderr=r["impl_raw"]["stderr"][-800:]),
                          found_input=(pid == "C12" and not crash and bool(tg & {"configured", "modules", "order", "nobuilds"})))
    kinds, nb, nob, distinct = {}, 0, {}, set()
    for c, r in zip(cases, results):
        kinds[r["model"]["kind"]] = kinds.get(r["model"]["kind"], 0) + 1
        if r["model"]["kind"] == "ok":
            nb += len(r["model"]["builds"])
            for x in r["model"]["nobuilds"]: nob[x[2]] = nob.get(x[2], 0) + 1
        if nontrivial(c, r): distinct.add(json.dumps(c, sort_keys=True))
    sample = results[len(results) // 2]
    rep.cov.update(evaluations=len(cases), distinct_nontrivial=len(distinct),
                   rule="upstream example projects (36) + regression corpus + random projects (<=5 contexts, <=3 builders, <=8 modules, <=3 apps, "
                        "hard/optional/if-then deps, provides, provides_unique, conflicts, disables, CLI select/disable); non-trivial = project using "
                        "optional deps, provides or conflicts/disables with >=1 configured build; distinct abstract projects",
                   samples=[dict(cli=sample["cli"], files=sample["files"], model_builds=sample["model"].get("builds", [])[:3],
                                 model_nobuilds=sample["model"].get("nobuilds", [])[:6])],
                   model_outcomes=kinds, builds_configured=nb, builds_not_configured=nob,
                   impl_builds_checked_by_property_checker=len(reqs), theorem_hypotheses_hold_on=hyp_ok,
                   disagreements_in_projection=ndis)
    rep.assumptions.append("theorem side conditions keys_okb/prov_okb/app_okb are evaluated on every configured build (count in coverage)")
    rep.assumptions.append("module sets observed through --info-export, selection order through ${modules} in the LINK command")
