"""C03 — each build compiles and links exactly the sources of its selected modules."""
import json
from .. import core, manifest_checks as mc
from . import gen_common

def run(rep, tier, seed, rng):
    core.proof_step(rep, "C03", clean=(tier == "thorough"))
    cases = gen_common.load_cases(rng, tier, 300, 5000, focus="layout")
    laze, driver, results = gen_common.run_cases(cases)
    distinct = set(); ndis = 0
    for c, r in zip(cases, results):
        if '{"' in json.dumps([m.get("sources") for docs in c[0].values() for d in docs for m in (d.get("modules") or [])]) and r["model"]["kind"] == "ok" and r["model"]["builds"]:
            distinct.add(json.dumps(c, sort_keys=True))
        if r["tags"] & {"crash", "rc", "predicted-panic"}:
            ndis += 1
            rep.violation("model and implementation disagree: " + "; ".join(r["dis"])[:400], gen_common.replay_data(r), found_input=("crash" in r["tags"]))
            continue
        if r["impl_parsed"] and r["model_parsed"]:
            li, lm = mc.link_sources(r["impl_parsed"]), mc.link_sources(r["model_parsed"])
            ci, cm = mc.compile_view(r["impl_parsed"]), mc.compile_view(r["model_parsed"])
            same = gen_common.same_builds(r)
            if li != lm:
                ndis += 1
                diff = [k for k in set(li) | set(lm) if li.get(k) != lm.get(k)][:3]
                rep.violation("link inputs differ from 'one object per source of every selected module, optional sources by guard' (C03_link_inputs)",
                              gen_common.replay_data(r, outputs=diff, implementation=[li.get(k) for k in diff], specification=[lm.get(k) for k in diff]),
                              found_input=same)
            elif [(a, b) for a, b, _ in ci] != [(a, b) for a, b, _ in cm] or mc.compile_cmd_view(r["impl_parsed"]) != mc.compile_cmd_view(r["model_parsed"]):
                ndis += 1
                rep.violation("a source is compiled by a different rule (name or command) than the nearest matching one (C03_nearest_rule)",
                              gen_common.replay_data(r, implementation=ci[:6], specification=cm[:6]), found_input=same)
            elif sorted({b["out"] for b in r["impl"]["builds"]}) != sorted({b["out"] for b in r["model"]["builds"]}) and same:
                # (sets: an app name declared for two contexts that both reach a builder gives two builds that the
                #  info file, a map keyed by name, shows once)
                ndis += 1
                rep.violation("app output file differs from ${outfile} / POST_LINK (C03_outfile)", gen_common.replay_data(r), found_input=True)
    rep.cov.update(evaluations=len(cases), distinct_nontrivial=len(distinct),
                   rule="corpus + random projects (modules in sub-directories, defaults with sources, optional source maps, rules overridden in child contexts, "
                        "srcdir overrides, custom builds); LINK inputs, (source, rule) pairs and output files compared with the proved model; "
                        "non-trivial = project with an optional source map and >=1 configured build",
                   samples=[dict(cli=results[-1]["cli"], link=list(mc.link_view(results[-1]["impl_parsed"]).items())[:1] if results[-1]["impl_parsed"] else [])],
                   disagreements=ndis, **gen_common.stats(cases, results))
