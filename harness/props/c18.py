"""C18 — laze builds what was asked for and reports ninja's verdict."""
import json
from .. import core, genproj, directed
from . import main_common as mcn

def clean_runs(laze, files, steps):
    """`laze clean` after a generation, in one project directory. step = dict(local=dir|None, unused, verbose, ninja_rc, build_dir)
    -> list of dict(rc, ninja_argv)"""
    import os, shutil, subprocess, tempfile
    from .. import e2e, proj
    tmp = tempfile.mkdtemp(prefix=e2e.SCRATCH_PREFIX); root = os.path.join(tmp, "p")
    try:
        proj.render(files, root)
        bindir = os.path.join(tmp, "bin"); os.makedirs(bindir)
        nj = os.path.join(bindir, "ninja"); open(nj, "w").write(e2e.FAKE_NINJA); os.chmod(nj, 0o755)
        out = []
        for st in steps:
            start = os.path.join(root, st["local"]) if st.get("local") not in (None, ".") else root
            glob = [] if st.get("local") is not None else ["-g"]
            bd = ["-B", st["build_dir"]] if st.get("build_dir") else []
            log = os.path.join(tmp, "ninja.log")
            env = e2e.clean_env(tmp); env.update(PATH=bindir + ":" + env.get("PATH", ""), LAZE_VERIF_NINJA_LOG=log, LAZE_VERIF_NINJA_RC="0")
            subprocess.run([laze, "-C", start, "build"] + glob + bd + ["-G"], env=env, capture_output=True, timeout=60)
            if os.path.exists(log): os.remove(log)
            env["LAZE_VERIF_NINJA_RC"] = str(st.get("ninja_rc", 0))
            args = [laze, "-C", start] + (["-v"] if st.get("verbose") else []) + ["clean"] + glob + bd + (["--unused"] if st.get("unused") else [])
            try:
                p = subprocess.run(args, env=env, capture_output=True, timeout=60); rc = p.returncode; se = p.stderr.decode("utf-8", "replace")
            except subprocess.TimeoutExpired:
                rc, se = "timeout", ""
            argvs = [ln.split("\x1f") if ln else [] for ln in open(log).read().split("\n")[:-1]] if os.path.exists(log) else []
            out.append(dict(rc=rc, ninja_argv=argvs, argv=args[1:], stderr=se[-300:]))
        return out
    finally:
        shutil.rmtree(tmp, ignore_errors=True)

def run(rep, tier, seed, rng):
    core.proof_step(rep, "C18", clean=(tier == "thorough"))
    laze = core.build_impl(); driver = core.build_model()
    nproj = 60 if tier == "quick" else 800
    items = []
    pool = [c for c in directed.cases()][:8]
    for k in range(nproj):
        f, c = pool[k] if k < len(pool) else genproj.gen_project(rng, focus=rng.choice([None, "build"]))
        c = {x: v for x, v in c.items() if x not in ("builders", "apps")}
        f, tnames = mcn.with_scripted_tasks(f, rng, force=(k % 3 == 0))
        bl = sorted({b["name"] for ds in f.values() for d in ds for b in (d.get("builders") or [])})
        al = sorted({a["name"] for ds in f.values() for d in ds for a in (d.get("apps") or []) if a.get("name")})
        if not bl or not al: continue
        def sel():
            r = rng.random()
            if r < 0.25: return {}
            if r < 0.5: return {"builders": sorted(rng.sample(bl, rng.randint(1, len(bl))))}
            if r < 0.75: return {"apps": rng.sample(al, rng.randint(1, len(al)))}
            return {"builders": sorted(rng.sample(bl, rng.randint(1, len(bl)))), "apps": rng.sample(al, rng.randint(1, len(al)))}
        def flags():
            sc = {"ninja_rc": rng.choice([0, 0, 0, 1, 2, "kill", "missing"])}
            if rng.random() < 0.3: sc["jobs"] = rng.choice([0, 1, 4, 16])          # -j 0: no limit; it is passed on like any other value
            if rng.random() < 0.3: sc["keep_going"] = rng.choice([0, 1, 3])
            if rng.random() < 0.3: sc["verbose"] = rng.choice([1, 2])
            return sc
        # a cold wide run, then narrower selections served from its cache, then a cold-equivalent selection
        steps = [(dict(c), dict(flags(), ninja_rc=0))]
        for _ in range(3):
            steps.append((dict(c, **sel()), flags()))
        if rng.random() < 0.3:
            steps.append((dict(c, **sel()), dict(flags(), generate_only=True)))
        if tnames:
            # `laze build -G <task>`: generate only means no ninja, also on the task path (the task itself still runs)
            t = rng.choice(tnames)
            steps.append((dict(c, **sel()), dict(flags(), task=t, multiple=True, generate_only=True, keep_going=0)))
            steps.append((dict(c, **sel()), dict(flags(), task=t, multiple=True, keep_going=0)))
        items.append((f, steps))
    results = mcn.run_scenarios(laze, driver, items)
    distinct = set(); nhit = 0; ndis = 0
    for f, c, sc, o, rp in results:
        m = mcn.parse_main_reply(rp)
        if o["cache_hit"]: nhit += 1
        diffs = mcn.compare(o, m)
        if diffs:
            ndis += 1
            rep.violation("`laze build` differs from the model%s: %s" % (" (served from the cache of a wider run)" if o["cache_hit"] else "", "; ".join(diffs)[:500]),
                          dict(files=f, cli=c, scenario=sc, argv=o["argv"], cache_hit=o["cache_hit"], stderr=o["stderr"][-300:]),
                          found_input=(m["kind"] == "ok"))
        if m["kind"] == "ok" and m["ninja"] and (c.get("builders") or c.get("apps")):
            distinct.add(json.dumps((f, c, sc), sort_keys=True))
    # clean: ninja's clean / cleandead tool on the build file of the mode
    from concurrent.futures import ThreadPoolExecutor
    citems = []
    for k in range(12 if tier == "quick" else 120):
        f, c = genproj.gen_project(rng, focus=rng.choice([None, "layout"]))
        import os
        dirs = sorted({os.path.dirname(x) or "." for x in f})
        steps = []
        for _ in range(4):
            steps.append(dict(local=(rng.choice(dirs) if rng.random() < 0.35 else None), unused=rng.random() < 0.5, verbose=rng.random() < 0.3,
                              ninja_rc=rng.choice([0, 0, 1, "kill"]), build_dir=rng.choice([None, None, "out", "build/nested"])))
        citems.append((f, steps))
    with ThreadPoolExecutor(core.NCPU) as ex:
        couts = list(ex.map(lambda it: clean_runs(laze, it[0], it[1]), citems))
    creqs = []; cflat = []
    for (f, steps), outs in zip(citems, couts):
        for st, o in zip(steps, outs):
            creqs.append("clean %s %s %s %s %s" % (core.hexs(st["build_dir"] or "build"), "1" if st.get("local") is not None else "0",
                                                  "1" if st.get("verbose") else "0", "1" if st.get("unused") else "0", "1" if st.get("ninja_rc", 0) == 0 else "0"))
            cflat.append((f, st, o))
    creps = core.run_model(driver, creqs)
    nclean = 0
    for (f, st, o), rp in zip(cflat, creps):
        m = mcn.parse_main_reply(rp); nclean += 1
        d = []
        if m["kind"] != "ok": d.append("model: %s" % rp[:80])
        else:
            if o["rc"] != m["exit"]: d.append("exit status %s, model %s" % (o["rc"], m["exit"]))
            if o["ninja_argv"] != m["ninja"]: d.append("ninja invocations %s, model %s" % (o["ninja_argv"], m["ninja"]))
        if d:
            ndis += 1
            rep.violation("`laze clean` differs from the model: " + "; ".join(d)[:400], dict(files=f, step=st, argv=o["argv"], stderr=o["stderr"]), found_input=True)
    rep.cov.update(clean_runs=nclean)
    rep.cov.update(evaluations=len(results), distinct_nontrivial=len(distinct),
                   rule="directed + random projects; per project a sequence in one build directory: a wide run, then 3 runs with random --builders/--apps subsets "
                        "(served from the wide run's cache), random -j/-k/-v and scripted ninja exit codes 0/1/2, sometimes --generate-only; exit status and the exact "
                        "ninja argument vector are compared with the model; non-trivial = a run with a non-empty selection that invokes ninja",
                   samples=[dict(cli=results[1][1], scenario=results[1][2], ninja_argv=results[1][3]["ninja_argv"])] if len(results) > 1 else [],
                   cache_hits=nhit, disagreements=ndis)
    rep.assumptions.append("process spawning is replaced by a fake ninja on PATH that logs its arguments and exits (or kills itself) as scripted; `clean [--unused] [-v] [-B dir]` in global and local mode is compared with the model's clean_argv")
