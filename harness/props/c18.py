"""C18 — laze builds what was asked for and reports ninja's verdict."""
import json
from .. import core, genproj, directed
from . import main_common as mcn

def run(rep, tier, seed, rng):
    core.proof_step(rep, "C18", clean=(tier == "thorough"))
    laze = core.build_impl(); driver = core.build_model()
    nproj = 60 if tier == "quick" else 800
    items = []
    pool = [c for c in directed.cases()][:8]
    for k in range(nproj):
        f, c = pool[k] if k < len(pool) else genproj.gen_project(rng, focus=rng.choice([None, "build"]))
        c = {x: v for x, v in c.items() if x not in ("builders", "apps")}
        f, tnames = mcn.with_scripted_tasks(f, rng, force=(k % 3 == 0))
        bl = sorted({b["name"] for ds in f.values() for d in ds for b in (d.get("builders") or [])})
        al = sorted({a["name"] for ds in f.values() for d in ds for a in (d.get("apps") or []) if a.get("name")})
        if not bl or not al: continue
        def sel():
            r = rng.random()
            if r < 0.25: return {}
            if r < 0.5: return {"builders": sorted(rng.sample(bl, rng.randint(1, len(bl))))}
            if r < 0.75: return {"apps": rng.sample(al, rng.randint(1, len(al)))}
            return {"builders": sorted(rng.sample(bl, rng.randint(1, len(bl)))), "apps": rng.sample(al, rng.randint(1, len(al)))}
        def flags():
            sc = {"ninja_rc": rng.choice([0, 0, 1, 2, "kill"])}
            if rng.random() < 0.3: sc["jobs"] = rng.choice([1, 4, 16])
            if rng.random() < 0.3: sc["keep_going"] = rng.choice([0, 1, 3])
            if rng.random() < 0.3: sc["verbose"] = rng.choice([1, 2])
            return sc
        # a cold wide run, then narrower selections served from its cache, then a cold-equivalent selection
        steps = [(dict(c), dict(flags(), ninja_rc=0))]
        for _ in range(3):
            steps.append((dict(c, **sel()), flags()))
        if rng.random() < 0.3:
            steps.append((dict(c, **sel()), dict(flags(), generate_only=True)))
        if tnames:
            # `laze build -G <task>`: generate only means no ninja, also on the task path (the task itself still runs)
            t = rng.choice(tnames)
            steps.append((dict(c, **sel()), dict(flags(), task=t, multiple=True, generate_only=True, keep_going=0)))
            steps.append((dict(c, **sel()), dict(flags(), task=t, multiple=True, keep_going=0)))
        items.append((f, steps))
    results = mcn.run_scenarios(laze, driver, items)
    distinct = set(); nhit = 0; ndis = 0
    for f, c, sc, o, rp in results:
        m = mcn.parse_main_reply(rp)
        if o["cache_hit"]: nhit += 1
        diffs = mcn.compare(o, m)
        if diffs:
            ndis += 1
            rep.violation("`laze build` differs from the model%s: %s" % (" (served from the cache of a wider run)" if o["cache_hit"] else "", "; ".join(diffs)[:500]),
                          dict(files=f, cli=c, scenario=sc, argv=o["argv"], cache_hit=o["cache_hit"], stderr=o["stderr"][-300:]),
                          found_input=(m["kind"] == "ok"))
        if m["kind"] == "ok" and m["ninja"] and (c.get("builders") or c.get("apps")):
            distinct.add(json.dumps((f, c, sc), sort_keys=True))
    rep.cov.update(evaluations=len(results), distinct_nontrivial=len(distinct),
                   rule="directed + random projects; per project a sequence in one build directory: a wide run, then 3 runs with random --builders/--apps subsets "
                        "(served from the wide run's cache), random -j/-k/-v and scripted ninja exit codes 0/1/2, sometimes --generate-only; exit status and the exact "
                        "ninja argument vector are compared with the model; non-trivial = a run with a non-empty selection that invokes ninja",
                   samples=[dict(cli=results[1][1], scenario=results[1][2], ninja_argv=results[1][3]["ninja_argv"])] if len(results) > 1 else [],
                   cache_hits=nhit, disagreements=ndis)
    rep.assumptions.append("process spawning is replaced by a fake ninja on PATH that logs its arguments and exits as scripted; `clean` is covered by theorem only")
