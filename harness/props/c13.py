"""C13 — expansion / evaluation. Oracle-level correspondence on expand, expand_eval, eval and
the load-time pass Env::expand, with the real evalexpr crate queried through the oracle."""
from .. import core
from ..core import hexs, unhexs

PIECES = ["${", "}", "\\", "$", "(", ")", "$(", "$$(", "a", "B", " ", "é", "日", "x1", "+", "1", "2",
          "*", "<", "${A}", "${B}", "${C}", "${N}", "${a b}", "${é}", "\\${A}", "\\${", "$(1+2)",
          "$(${N}+1)", "$(2*$(1+1))", "${nosuch}", "{", "\\\\", "$$", "-O2", "\"s\"", "$(\"a\"+\"b\")",
          "$(1 <", "$(1/0)", "$(true && false)", "%", "$(n = 2; n * 3)", "$(a = ${N}; if(a > 1, a, 9))", "$(x = 1)", ";", "=", "${A}${B}", "é${A}", "${A}é", "\\é", "$é", "é("]
VARS = ["A", "B", "C", "N", "a b", "é", "in", "out"]

def rstr(rng, n=None, pieces=PIECES):
    n = rng.randint(0, 6) if n is None else n
    return "".join(rng.choice(pieces) for _ in range(n))

def rmap(rng):
    m = {}
    for v in rng.sample(VARS, rng.randint(0, 6)):
        r = rng.random()
        if r < 0.35: m[v] = rng.choice(["1", "2", "-O2", "x y", "", "é", "${in}", "\\${in}"])
        elif r < 0.7: m[v] = rstr(rng, rng.randint(0, 4))
        else: m[v] = "${%s}" % rng.choice(VARS) + rstr(rng, rng.randint(0, 2))
    return m

def req_expand(cmd, pol, f, m):
    return " ".join([cmd, pol, hexs(f), str(len(m))] + [hexs(k) + " " + hexs(v) for k, v in m.items()])

def envkey(v):
    if isinstance(v, str): return "S " + hexs(v)
    return "L %d" % len(v) + "".join(" " + hexs(x) for x in v)

def req_env(e):
    return "%d" % len(e) + "".join(" %s %s" % (hexs(k), envkey(v)) for k, v in e.items())

def gen(rng, tier):
    n = 6000 if tier == "quick" else 150000
    cases = []
    for i in range(n):
        r = rng.random()
        if r < 0.45:
            cases.append((req_expand("expand", rng.choice("EIDM"), rstr(rng), rmap(rng)), "expand"))
        elif r < 0.7:
            cases.append((req_expand("expand_eval", rng.choice("EIM"), rstr(rng), rmap(rng)), "expand_eval"))
        elif r < 0.9:
            cases.append(("eval " + hexs(rstr(rng, rng.randint(0, 8))), "eval"))
        else:
            env = {}
            for v in rng.sample(VARS, rng.randint(0, 4)):
                env[v] = rstr(rng, rng.randint(0, 4)) if rng.random() < 0.5 else [rstr(rng, rng.randint(0, 3)) for _ in range(rng.randint(0, 3))]
            vals = {"relpath": rng.choice(["sub/dir", ".", "é"]), "root": ".", "srcdir": rng.choice(["sub", "${relpath}"])}
            if rng.random() < 0.2: vals["A"] = rng.choice(["x", "${A}", ["l1", "l2"]])
            cases.append(("envexpand " + req_env(env) + " " + req_env(vals), "envexpand"))
    # directed cases: the shapes of the theorems and of past defects
    directed = [("expand", "E", "x${A}x", {"A": "a(${B})", "B": "b()"}), ("expand", "E", "${A} s", {"A": "\\${a}"}),
                ("expand", "E", "é${A}", {"A": "1"}), ("expand", "M", "\\é${A}", {}), ("expand", "E", "${A", {}),
                ("expand", "E", "${A}", {"A": "${B}", "B": "${A}"}), ("expand", "I", "x\\${CFLAGS}y ${in}", {"CFLAGS": "-O2"}),
                ("expand", "D", "x\\${CFLAGS}y ${relpath}", {"relpath": "d"}), ("expand", "E", "a}b${A}", {"A": "1"}),
                ("expand", "E", "\\${X} ${A}", {"A": "1"}), ("expand", "E", "${A}}${A}", {"A": "1"})]
    # chains of variables defined by the next one: up to 100 nested references expand, deeper ones are refused with a
    # typed error (before fix 913125a a chain of some thousand overflowed the stack)
    for n in (1, 5, 98, 99, 100, 101, 150, 3000) + tuple(rng.randint(90, 110) for _ in range(4)):
        chain = {"V%d" % i: rng.choice(["${V%d}", "a${V%d}b"]) % (i + 1) for i in range(n)}; chain["V%d" % n] = "end"
        for pol in "EIM":
            directed.append(("expand", pol, "x ${V0} y", chain))
        directed.append(("expand_eval", "E", "${V0}", chain))
    for cmd, pol, f, m in directed:
        cases.append((req_expand(cmd, pol, f, m), "directed"))
    for s in ["$(1+2)", "é$(1+2)", "$é(1)", "$$(1+2)", "a $(1+$(1+1)) b", "$(", "$(1", "())$(1+1)", "$(1+1))(", "日$(2*3)日", "$($(1+1)", "x$$(y$(1+1)", "$(n = 4 * 2; if(n > 6, 6, n))", "a$(v = 1; v + v)b$(v)", "$(max(1, 2))", "$(len(\"abc\"))", "$(str::to_uppercase(\"x\"))"]:
        cases.append(("eval " + hexs(s), "directed"))
    return cases

def norm(reply):
    t = reply.split()
    if t[:2] == ["err", "expr"]: return "err expr"
    if t[:2] == ["err", "other"]:
        msg = unhexs(t[2]) if len(t) > 2 else ""
        for key, tag in (("unclosed brace", "err unclosed"), ("cycle involving", "err cycle"), ("missing variable", "err missing"), ("levels deep at variable", "err toodeep")):
            if key in msg: return tag
        return "err other"
    return reply

def norm_model_env(reply):
    # envexpand errors: the implementation reports the message only; compare the class
    # several values of one env may fail differently; which one is reported first depends on map order
    t = reply.split()
    if t and t[0] == "err": return "err"
    return reply

def clean_shape(req):
    """inputs on which the property text leaves no room: no backslash directly before another
    backslash that precedes ${, every $( closed"""
    t = req.split()
    try:
        f = unhexs(t[2] if t[0].startswith("expand") else t[1])
    except Exception:
        return False
    return "\\\\$" not in f and f.count("(") == f.count(")")

def run(rep, tier, seed, rng):
    core.proof_step(rep, "C13", clean=(tier == "thorough"))
    laze = core.build_impl()
    driver = core.build_model()
    cases = gen(rng, tier)
    reqs = [c[0] for c in cases]
    impl = core.run_impl_oracle(laze, reqs)
    model, tables = core.run_model_ev(laze, driver, reqs)
    sample_idx = [i for i, c in enumerate(cases) if not tables[i]][:4000]
    nvm, vmbad = core.vm_crosscheck([reqs[i] for i in sample_idx], [model[i] for i in sample_idx], n=40)
    for b in vmbad:
        rep.violation("extraction/driver cross-check failed: " + b, {}, found_input=False)
    kinds, outcomes, distinct = {}, {}, set()
    for (req, kind), a, b in zip(cases, impl, model):
        kinds[kind] = kinds.get(kind, 0) + 1
        cls = " ".join(norm(a).split()[:2]) if not a.startswith("ok") else "ok"
        outcomes[cls] = outcomes.get(cls, 0) + 1
        f = req
        feats = sum(1 for p in ("247b", "5c247b", "2428", "c3a9", "e697a5") if p in req)
        if feats >= 2: distinct.add(req)
        na, nb = norm(a), norm(b)
        if kind == "envexpand": nb = norm_model_env(nb); na = norm_model_env(na)
        if na != nb:
            crashed = a.startswith("panic") or a.startswith("crash")
            rep.violation(
                ("expansion panics/crashes (the model is proved total: C13_total)" if crashed
                 else "implementation and proved model disagree on an expansion"),
                dict(request=req, kind=kind, implementation=a, model=b,
                     decode="hex-encoded UTF-8; '.'=empty; policies E=error I=ignore D=defer M=empty"),
                found_input=crashed or clean_shape(req) or (kind == "envexpand" and a.startswith("ok") and b.startswith("ok")))
    # end to end: every string laze expands on its way to the ninja file (rule commands, export: entries of rules,
    # sources, outs, task commands), against the model that uses the proved expander
    from . import gen_common
    ecases = gen_common.load_cases(rng, tier, 120, 2000, focus="env")
    # expansion errors in task commands, rule fields and env values are ERRORS of the run (typed, with exit status 1):
    # a cycle, an unclosed brace, a bad expression, nesting beyond the depth limit — never a silently shortened command
    import copy
    from .. import directed as _directed
    bad_cmds = [["echo one", "flash --port ${CYC_A}", "echo three"], ["echo ${unclosed", "echo two"], ["echo $(1 +)", "echo two"],
                ["echo ${DEEP0}"], ["echo fine", "echo \\${kept} $(2 * 21)"]]
    deep = {"DEEP%d" % i: "${DEEP%d}" % (i + 1) for i in range(120)}; deep["DEEP120"] = "end"
    for bc in bad_cmds:
        f = copy.deepcopy(_directed.base([], [{"name": "app", "sources": ["main.c"]}]))
        ctx = f["laze-project.yml"][0]["contexts"][0]
        ctx["env"].update({"CYC_A": "${CYC_B}", "CYC_B": "${CYC_A}"}, **deep)
        where = rng.choice(["context", "app"])
        (ctx if where == "context" else f["laze-project.yml"][0]["apps"][0])["tasks"] = {"flash": {"cmd": bc, "build": False}}
        ecases.append((f, {}))
    lz, dr, results = gen_common.run_cases(ecases)
    ne2e = 0
    for c, r in zip(ecases, results):
        if r["tags"] & {"ninja", "crash", "rc", "predicted-panic"} and not (r["tags"] & {"configured", "modules", "nobuilds"}):
            ne2e += 1
            rep.violation("expanded text in the generated file differs from the model's (rule commands, exports, sources, task commands): " + "; ".join(r["dis"])[:300],
                          gen_common.replay_data(r), found_input=True)
    # ... and the strings that reach a task's shell (commands, exported values)
    from .. import tasktext
    ntask, tbad = tasktext.check(lz, ecases, results, limit=40 if tier == "quick" else 400)
    for text, data in tbad:
        rep.violation("expanded task text differs from the model's: " + text[:400], data, found_input=True)
    rep.cov.update(e2e_projects=len(ecases), e2e_disagreements=ne2e, task_runs_compared=ntask, task_text_differences=len(tbad))
    rep.cov.update(evaluations=len(cases), distinct_nontrivial=len(distinct),
                   rule="strings built from a piece grammar biased to ${ } \\ $( ) and multi-byte characters, variable maps with chains and cycles, "
                        "policies E/I/D/M; non-trivial = request containing >= 2 of {reference, escape, expression, 2-byte char, 3-byte char}; distinct request lines",
                   samples=[dict(request=reqs[i], implementation=impl[i], model=model[i]) for i in (0, len(reqs) // 3, len(reqs) - 1)],
                   input_kinds=kinds, outcome_classes=outcomes, vm_compute_crosschecked=nvm)
    rep.assumptions.append("evalexpr::eval is an uninterpreted function EV in the theorems; at run time its values are obtained from the real crate through the oracle hook")
    rep.assumptions.append("stack exhaustion at extreme nesting depth is outside the model (the theorem gives termination and a depth bound of #variables+1 / string length)")
