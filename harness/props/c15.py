"""C15 — malformed projects are rejected with a diagnostic, never a crash.
(a) structured malformed stream compared with the model (which must predict no panic / no fuel
exhaustion), (b) type-confusion and field-deletion on the YAML structure, (c) byte-level mutation of the
YAML text, (d) argument-vector fuzz -- for (b)-(d) only crashes, hangs and wrong exit classes count --
and (e) the inventory of potential panic sites regenerated from the sources."""
import copy, json, os, subprocess, tempfile, shutil
from concurrent.futures import ThreadPoolExecutor
from .. import core, e2e, genproj, proj, directed, panic_inventory
from . import gen_common

BAD_STRINGS = ["", "${", "${X", "$(", "$(1 +", "$(nosuch(1))", "é${", "\\${", "${é}", "a${X}b${", "$$(", "}", "${}", "日本", " ", "\t", "-", "--", "?", "??x", "context::x", "-m0"]

def all_mods(files):
    for docs in files.values():
        for d in docs:
            for key in ("modules", "apps"):
                for m in (d.get(key) or []): yield m
def all_ctxs(files):
    for docs in files.values():
        for d in docs:
            for c in (d.get("contexts") or []) + (d.get("builders") or []): yield c

def structured(rng, f):
    """one well-typed malformation; returns (files, description)"""
    f = copy.deepcopy(f)
    mods = list(all_mods(f)); ctxs = list(all_ctxs(f))
    k = rng.randrange(34)
    bad = rng.choice(BAD_STRINGS)
    if k == 0 and ctxs:
        a, b = rng.sample(ctxs, 2) if len(ctxs) > 1 else (ctxs[0], ctxs[0]); a["parent"] = b["name"]; b["parent"] = a["name"]; d = "parent cycle"
    elif k == 1 and ctxs: c = rng.choice(ctxs); c["parent"] = c["name"]; d = "self parent"
    elif k == 2 and ctxs: rng.choice(ctxs)["parent"] = "nosuch"; d = "unknown parent"
    elif k == 3 and mods: rng.choice(mods)["context"] = "nosuch"; d = "unknown context"
    elif k == 4 and mods: m = rng.choice(mods); m["name"] = bad; d = "module name %r" % bad
    elif k == 5 and mods: m = rng.choice(mods); m.setdefault("selects", []).append(bad); d = "dependency %r" % bad
    elif k == 6 and mods: m = rng.choice(mods); m.setdefault("depends", []).append({bad: [bad]}); d = "if-then dependency %r" % bad
    elif k == 7 and mods: m = rng.choice(mods); m["sources"] = (m.get("sources") or []) + [rng.choice(["README", "x.zz", ".c", "a.", bad + ".c", "x.${E}", "d/"])]; d = "odd source"
    elif k == 8 and ctxs: c = ctxs[0]; c.setdefault("rules", []).append({"name": "CC", "in": "c", "cmd": "cc"}); d = "rule without out"
    elif k == 9 and ctxs: ctxs[0]["rules"] = [r for r in ctxs[0].get("rules", []) if r["name"] != "LINK"]; d = "no LINK rule"
    elif k == 10 and ctxs: c = rng.choice(ctxs); c.setdefault("env", {})[rng.choice(["X", "CFLAGS", "bindir", "outfile"])] = rng.choice([bad, [bad, "x"]]); d = "context env value %r" % bad
    elif k == 11 and mods: m = rng.choice(mods); m.setdefault("env", {}).setdefault(rng.choice(["local", "export", "global"]), {})[rng.choice(["X", "notify", "CFLAGS"])] = rng.choice([bad, [bad]]); d = "module env value %r" % bad
    elif k == 12 and ctxs and ctxs[0].get("rules"): r = rng.choice(ctxs[0]["rules"]); r[rng.choice(["cmd", "gcc_deps", "description"])] = "x " + bad; d = "rule field %r" % bad
    elif k == 13 and mods: m = rng.choice(mods); m["srcdir"] = bad; d = "srcdir %r" % bad
    elif k == 14 and mods: m = rng.choice(mods); m["build"] = {"cmd": [bad], "out": [bad]}; d = "custom build %r" % bad
    elif k == 15 and mods: m = rng.choice(mods); m["tasks"] = {"t": {"cmd": [bad], "workdir": bad, "export": ["X", {"Y": bad}]}}; d = "task %r" % bad
    elif k == 16 and mods: m = rng.choice(mods); m["is_build_dep"] = True; d = "is_build_dep without files"
    elif k == 17: list(f.values())[0][0].setdefault("defaults", {})["module"] = {"context": ["default", "default"]}; d = "defaults with context list"
    elif k == 18: list(f.values())[0][0].setdefault("defaults", {})["module"] = {"env": {"local": {"X": "${"}}}; d = "defaults with unclosed brace"
    elif k == 19: list(f.values())[0][0]["includes"] = [list(f)[0]]; d = "self-including file"
    elif k == 20: list(f.values())[0][0]["subdirs"] = ["nosuchdir"]; d = "missing subdir file"
    elif k == 21 and ctxs: c = rng.choice(ctxs); c["var_options"] = {"X": {"from": rng.choice(["X", "nosuch"]), "joiner": bad}}; c.setdefault("env", {})["X"] = []; d = "var_options from"
    elif k == 22 and mods and ctxs: m = copy.deepcopy(rng.choice(mods)); list(f.values())[0][0].setdefault("modules", []).append(m); d = "duplicate module"
    elif k == 23 and ctxs: c = copy.deepcopy(rng.choice(ctxs)); list(f.values())[0][0].setdefault("contexts", []).append(c); d = "duplicate context"
    elif k == 24:
        # a context hanging off a cycle it is not part of, declared before / after the cycle members
        d0 = list(f.values())[0][0]; cl = d0.setdefault("contexts", [])
        cyc = [{"name": "cyc_a", "parent": "cyc_b"}, {"name": "cyc_b", "parent": rng.choice(["cyc_a", "cyc_c"])}, {"name": "cyc_c", "parent": "cyc_a"}]
        tail = {"name": "tail", "parent": rng.choice(["cyc_a", "cyc_b"])}
        pos = rng.choice([0, len(cl)])
        cl[pos:pos] = [tail] + cyc if rng.random() < 0.7 else cyc + [tail]
        d = "parent cycle with a tail context"
    elif k == 25 and ctxs:
        c = rng.choice(ctxs); c["parent"] = c["name"]
        list(f.values())[0][0].setdefault("contexts", []).insert(0, {"name": "tail2", "parent": c["name"]}); d = "self parent with a tail context"
    elif k == 26 and mods:
        # a custom build without outputs / with an empty output list, in a module every app depends on
        m = {"name": "nooutmod", "build": dict({"cmd": ["gen"]}, **rng.choice([{}, {"out": []}]))}
        d0 = list(f.values())[0][0]; d0.setdefault("modules", [])
        if d0["modules"] is None: d0["modules"] = []
        d0["modules"].append(m)
        for a in [x for ds in f.values() for dd in ds for x in (dd.get("apps") or [])]: a.setdefault("selects", []).append("nooutmod")
        d = "custom build without out"
    elif k == 27 and mods:
        m = rng.choice(mods); m["download"] = rng.choice([{"git": {"url": "u", "commit": "c"}}, {"git": {"url": "u"}}, {"git": {"url": "u", "commit": "c"}, "patches": []}, {"laze": "x"}])
        d = "download without rules / unsupported kind / empty patches"
    elif k == 28 and mods:
        m = rng.choice(mods); m["sources"] = rng.choice([[], [""], ["noext"], [".c"], ["a..c", "dir/"], [{"": ["x.c"]}], [{"g": []}]])
        d = "odd source lists"
    elif k == 29:
        d0 = list(f.values())[0][0]; d0["imports"] = [{"path": rng.choice(["nosuchdir", "emptydir", ""])}]
        f["emptydir/other.yml"] = [{}]; d = "import of a directory without a lazefile / of the project directory itself"
    elif k == 30:
        # imports that import each other; the second one also lists the first as a sub-directory
        d0 = list(f.values())[0][0]; d0["imports"] = [{"path": "impa"}]
        f["impa/laze.yml"] = [{"imports": [{"path": "impb"}], "modules": [{"name": "impa_mod", "sources": ["a.c"]}]}]
        f["impb/" + rng.choice(["laze-lib.yml", "laze.yml", "laze-project.yml"])] = [dict({"imports": [{"path": "impa"}], "modules": [{"sources": ["b.c"]}]},
                                                                                      **({"subdirs": ["../impa"]} if rng.random() < 0.5 else {}))]
        for docs in list(f.values()):
            if any("../impa" in (doc.get("subdirs") or []) for doc in docs):
                # the OS opens impb/../impa/laze.yml as impa/laze.yml: the tree the model is given has the file under
                # both spellings (work-list keys are compared as written, by laze and by the model)
                f["impb/../impa/laze.yml"] = f["impa/laze.yml"]
        d = "imports importing each other"
    elif k == 31:
        # a file included by absolute path from an imported lazefile declares a module without a name (fix 8d614e3)
        d0 = list(f.values())[0][0]; d0["imports"] = [{"path": "impc"}]
        f["impc/laze.yml"] = [{rng.choice(["includes", "subdirs"]): ["@ABSROOT@/outside/" + rng.choice(["x.yml", ""])]}]
        f["@ABSROOT@/outside/x.yml"] = [{"modules": [{"sources": ["o.c"]}]}]; f["@ABSROOT@/outside/laze.yml"] = [{"modules": [{"sources": ["p.c"]}]}]
        d = "unnamed module in a file reached by absolute path from an import"
    elif k == 32:
        d0 = list(f.values())[0][0]; d0["imports"] = [{"path": "impd"}] + ([{"path": "impd", "name": "again"}] if rng.random() < 0.5 else [])
        if rng.random() < 0.6: d0["subdirs"] = (d0.get("subdirs") or []) + ["impd"]
        f["impd/laze.yml"] = [{"modules": [{"name": "impd_mod", "sources": ["d.c"]}, {"sources": ["unnamed.c"]}]}]
        d = "a directory imported (twice) and listed under subdirs"
    elif k == 33 and ctxs:
        # var_options whose from: names form a cycle (or name the variable itself) among variables without values
        c = rng.choice(ctxs)
        c["var_options"] = dict(c.get("var_options") or {}, **rng.choice([{"VA": {"from": "VB"}, "VB": {"from": "VA"}}, {"VA": {"from": "VA"}},
                                                                          {"VA": {"from": "VB"}, "VB": {"from": "VC"}, "VC": {"from": "VA", "prefix": "-x"}}]))
        d = "from: cycle in var_options"
    else:
        m = (mods or [{}])[0]; m["provides"] = [bad]; m["conflicts"] = [bad]; d = "provides/conflicts %r" % bad
    return f, d

def type_confusion(rng, f):
    f = copy.deepcopy(f)
    nodes = []
    def walk(x, path):
        if isinstance(x, dict):
            for k in list(x): nodes.append((x, k)); walk(x[k], path + [k])
        elif isinstance(x, list):
            for i, v in enumerate(x): nodes.append((x, i)); walk(v, path + [i])
    walk(f, [])
    if not nodes: return f, "nothing"
    parent, key = rng.choice(nodes)
    choice = rng.randrange(8)
    try:
        if choice == 0: del parent[key]; d = "deleted"
        elif choice == 1: parent[key] = None; d = "null"
        elif choice == 2: parent[key] = 42; d = "number"
        elif choice == 3: parent[key] = [parent[key]]; d = "wrapped in list"
        elif choice == 4: parent[key] = {"k": parent[key]}; d = "wrapped in map"
        elif choice == 5: parent[key] = "str"; d = "string"
        elif choice == 6: parent[key] = []; d = "empty list"
        else: parent[key] = {}; d = "empty map"
    except Exception:
        d = "noop"
    return f, "type confusion at %r: %s" % (key, d)

def run_text(laze, text, args=None):
    tmp = tempfile.mkdtemp(prefix=e2e.SCRATCH_PREFIX); root = os.path.join(tmp, "p"); os.makedirs(root)
    try:
        open(os.path.join(root, "laze-project.yml"), "wb").write(text)
        try:
            p = subprocess.run([laze, "-C", root, "build", "-g", "-G"] + (args or []), env=e2e.clean_env(tmp), capture_output=True, timeout=20)
            return p.returncode, p.stderr.decode("utf-8", "replace")[-300:]
        except subprocess.TimeoutExpired:
            return "timeout", ""
    finally:
        shutil.rmtree(tmp, ignore_errors=True)

def run_sequence(laze, files, steps):
    """several command lines in ONE build directory (cache, info export, tasks, clean): -> list of (rc, stderr tail)"""
    tmp = tempfile.mkdtemp(prefix=e2e.SCRATCH_PREFIX); root = os.path.join(tmp, "p")
    try:
        proj.render(files, root)
        bindir = os.path.join(tmp, "bin"); os.makedirs(bindir)
        nj = os.path.join(bindir, "ninja"); open(nj, "w").write(e2e.FAKE_NINJA); os.chmod(nj, 0o755)
        env = e2e.clean_env(tmp); env.update(PATH=bindir + ":" + env.get("PATH", ""), LAZE_VERIF_NINJA_LOG=os.path.join(tmp, "n.log"), LAZE_VERIF_NINJA_RC="0")
        out = []
        for a in steps:
            if a and a[0] == "@damage":
                # what an interrupted run or a full disk leaves in the build directory: truncated cache / ninja / info files
                for name, size in a[1:]:
                    fp = os.path.join(root, "build", name)
                    if os.path.exists(fp):
                        with open(fp, "r+b") as fh: fh.truncate(size)
                out.append((0, "")); continue
            try:
                p = subprocess.run([laze, "-C", root] + a, env=env, capture_output=True, timeout=30)
                out.append((p.returncode, p.stderr.decode("utf-8", "replace")[-300:]))
            except subprocess.TimeoutExpired:
                out.append(("timeout", ""))
        return out
    finally:
        shutil.rmtree(tmp, ignore_errors=True)

def crashed(rc): return rc == "timeout" or not isinstance(rc, int) or rc < 0 or rc not in (0, 1, 2)

def run(rep, tier, seed, rng):
    core.proof_step(rep, "C15", clean=(tier == "thorough"))
    inv = [x["line"] for x in json.load(open(os.path.join(core.VERIF, "corpus", "panic_inventory.json")))]
    now = panic_inventory.scan(core.REPO)
    from .. import inventory as _inv
    new, _gone = _inv.compare(inv, now)        # on normalised text: a renamed variable is not a new site
    # a new site of a kind that has been reviewed (the class rules of panic_inventory.classify are the review:
    # derive_builder with all fields set, clap-guaranteed arguments, ...) does not break the tie; one that matches
    # no reviewed class (new slicing, a new unwrap on data from the project) does
    new = [l for l in new if panic_inventory.classify(l) == "UNREVIEWED"]
    laze = core.build_impl(); driver = core.build_model()
    n_struct = 400 if tier == "quick" else 6000
    n_conf = 300 if tier == "quick" else 5000
    n_text = 300 if tier == "quick" else 5000
    n_argv = 120 if tier == "quick" else 1500
    bases = [genproj.gen_project(rng, focus=rng.choice([None, "build", "layout"])) for _ in range(40)] + directed.cases()
    # (a) structured malformed stream, compared with the model
    cases, descs = [], []
    for _ in range(n_struct):
        f, c = rng.choice(bases)
        f2, d = structured(rng, f)
        if rng.random() < 0.3: f2, d2 = structured(rng, f2); d += " + " + d2
        c2 = dict(c)
        if rng.random() < 0.15: c2["select"] = [rng.choice(BAD_STRINGS)]
        if rng.random() < 0.1: c2["builders"] = ["nosuch"]
        if rng.random() < 0.1: c2["apps"] = ["nosuch"]
        cases.append((f2, c2)); descs.append(d)
    results = e2e.run_batch(laze, driver, cases)
    kinds = {}; ndis = 0; distinct = set()
    for (f2, c2), d, r in zip(cases, descs, results):
        key = d.split(" ")[0] + " " + (d.split(" ")[1] if " " in d else "")
        kinds[key] = kinds.get(key, 0) + 1
        distinct.add(json.dumps((f2, c2), sort_keys=True))
        if r["impl"]["crashed"] or r["impl"]["rc"] not in (0, 1, 2):
            rep.violation("laze crashes / hangs / exits with an unexpected status on a malformed project (%s): rc=%s %s" % (d, r["impl"]["rc"], r["impl_raw"]["stderr"][-200:]),
                          dict(files=f2, cli=c2, malformation=d, argv=r["impl_raw"]["argv"], model=r["model"]["kind"]), found_input=True)
        elif r["model"]["kind"] in ("panic", "fuel"):
            rep.violation("the model predicts %s %s (a panic site / unbounded loop of the code) for a malformed project (%s)" % (r["model"]["kind"], r["model"].get("tag"), d),
                          dict(files=f2, cli=c2, malformation=d), found_input=False)
        elif r["impl"]["rc"] == 2:
            pass        # command-line usage error (clap), e.g. a --select value that looks like a flag: not modelled
        elif r["tags"] & {"rc", "predicted-panic"}:
            ndis += 1
            rep.violation("model and implementation disagree on accepting a malformed project (%s): %s" % (d, "; ".join(r["dis"])[:300]),
                          dict(files=f2, cli=c2, malformation=d), found_input=False)
    # (b) type confusion / field deletion, (c) text mutation, (d) argv fuzz: crashes only
    jobs = []
    for _ in range(n_conf):
        f, c = rng.choice(bases); f2, d = type_confusion(rng, f)
        docs = list(f2.values())[0] if isinstance(f2, dict) and f2 else []
        text = "\n---\n".join(json.dumps(x, ensure_ascii=False) for x in docs) if isinstance(docs, list) else json.dumps(docs)
        jobs.append(("conf", text.encode("utf-8"), [], d))
    for _ in range(n_text):
        f, c = rng.choice(bases)
        t = bytearray("\n---\n".join(json.dumps(x, ensure_ascii=False, indent=rng.choice([None, 1])) for x in list(f.values())[0]).encode("utf-8"))
        for _m in range(rng.randint(1, 4)):
            op = rng.randrange(5); pos = rng.randrange(len(t) + 1)
            if op == 0 and t: t[pos % len(t)] = rng.randrange(256)
            elif op == 1 and t: del t[pos % len(t):pos % len(t) + rng.randint(1, 20)]
            elif op == 2: t[pos:pos] = rng.choice([b"{", b"}", b"[", b"]", b":", b"- ", b"\t", b"\n---\n", b"&a ", b"*a", b"!!x ", b"\xff", b"\xc3", b"${", b"\"", b"'", b"|", b">", b"? "])
            elif op == 3: t[pos:pos] = t[max(0, pos - 30):pos]
            else: t = t[:pos]
        jobs.append(("text", bytes(t), [], "text mutation"))
    ARGS = [["-b", "nosuch"], ["-a", "nosuch"], ["--partition", "x"], ["--partition", "count:0/0"], ["--partition", "count:3/2"], ["--partition", "hash:1/1"],
            ["-D", "novalue"], ["-D", "=x"], ["-D", "+=x"], ["--select", ""], ["--select", "?"], ["--disable", ""], ["-j", "x"], ["-j", "0"], ["-k", "-1"],
            ["--nosuchflag"], ["-b", ""], ["-a", ","], ["--select", ",,"], ["-D", "é=日本"], ["--build-dir", "/dev/null/x"], ["nosuchtask"], ["-m", "nosuchtask"]]
    for _ in range(n_argv):
        f, c = rng.choice(bases)
        text = "\n---\n".join(json.dumps(x, ensure_ascii=False) for x in list(f.values())[0]).encode("utf-8")
        a = [x for _k in range(rng.randint(1, 2)) for x in rng.choice(ARGS)]
        jobs.append(("argv", text, a, "argv %s" % a))
    with ThreadPoolExecutor(core.NCPU) as ex:
        outs = list(ex.map(lambda j: run_text(laze, j[1], j[2]), jobs))
    counts = {}
    for (kind, text, a, d), (rc, err) in zip(jobs, outs):
        counts[kind + " rc=" + str(rc)] = counts.get(kind + " rc=" + str(rc), 0) + 1
        if crashed(rc):
            rep.violation("laze crashes / hangs on %s (%s): rc=%s %s" % (kind, d, rc, err[-200:]),
                          dict(kind=kind, yaml_text=text.decode("utf-8", "replace")[:4000], args=a, what=d), found_input=True)
    # (e) valid projects, several command lines in one build directory: the cache, the info export, tasks and clean
    #     meet each other; crashes only
    seqs = []
    INFO = ["-i", "build/info.json"]
    for f, c in directed.cases()[:12] + [genproj.gen_project(rng) for _ in range(12 if tier == "quick" else 120)]:
        sel = proj.argv({k: v for k, v in c.items() if k in ("select", "disable", "define")})
        b = ["build", "-g"]
        seqs.append((f, [b + ["-G"] + sel, b + ["-G"] + INFO + sel, b + ["-G"] + INFO + sel, b + INFO + sel, b + sel,
                         ["build", "-g", "-c", "-G"] + sel, ["clean", "-g"], b + ["-G"] + INFO + sel, ["clean", "-g", "--unused"], b + ["nosuchtask"] + sel]))
        dmg = lambda n: ["@damage", ("laze-cache-global.bincode", n), ("laze-cache-local.bincode", n)]
        seqs.append((f, [b + ["-G"] + sel, dmg(0), b + ["-G"] + sel, dmg(8), b + sel, dmg(rng.choice([15, 16, 17, 24, 40, 100])), b + ["-G"] + sel,
                         ["build", "-G"] + sel, dmg(rng.randint(0, 64)), ["build", "-G"] + sel,
                         ["@damage", ("build-global.ninja", rng.randint(0, 30))], b + sel, ["clean", "-g"]]))
    with ThreadPoolExecutor(core.NCPU) as ex:
        souts = list(ex.map(lambda fs: run_sequence(laze, fs[0], fs[1]), seqs))
    nseq = 0
    for (f, steps), res in zip(seqs, souts):
        for a, (rc, err) in zip(steps, res):
            nseq += 1
            if crashed(rc):
                rep.violation("laze crashes / hangs on a valid project after earlier runs in the same build directory (%s): rc=%s %s" % (" ".join(a), rc, err[-200:]),
                              dict(kind="sequence", files=f, steps=steps, failing=a), found_input=True)
                break
    counts["sequence steps"] = nseq
    if new:
        rep.violation("new potential panic sites in the sources that the reviewed inventory does not list (%d)" % len(new),
                      dict(new=new[:20], inventory="corpus/panic_inventory.json"), found_input=False)
    rep.cov.update(evaluations=len(cases) + len(jobs), distinct_nontrivial=len(distinct),
                   rule="(a) one or two structured malformations (24 kinds: parent cycles, unknown/duplicate/empty names, odd sources, rules without out/LINK, unclosed braces, "
                        "bad expressions and non-ASCII text in every string position, defaults with context lists, self-including files, ...) applied to random and directed "
                        "projects, compared with the model; (b) type confusion / deletion at a random node of the YAML structure; (c) 1-4 byte-level mutations of the YAML text; "
                        "(d) malformed argument vectors; (e) valid projects with ten command lines in one build directory (generate, info export before/after a cached run, compile commands, clean, unknown task), and with cache / ninja files truncated between the runs; for (b)-(e) only crashes, hangs and exit statuses outside {0,1,2} count; non-trivial = every structured malformed project",
                   samples=[dict(malformation=descs[0], rc=results[0]["impl"]["rc"], model=results[0]["model"]["kind"])],
                   malformation_kinds=kinds, other_streams=counts, panic_inventory_sites=len(now), panic_inventory_new=len(new), disagreements=ndis)
    rep.assumptions.append("serde_yaml, clap and the OS are exercised, not modelled; stack exhaustion at extreme nesting is outside the model")
