from . import resolver_common
def run(rep, tier, seed, rng):
    resolver_common.run(rep, "C12", tier, seed, rng)
