"""C10 — a build's statements do not depend on what else was selected; partitions are disjoint and
cover. Metamorphic on the implementation itself (several runs of one project) + correspondence."""
import json
from .. import core, e2e, genproj, ninja_parse
from . import gen_common

def closure(parsed, target):
    """texts of all statements reachable from target through inputs and order-only deps, plus their rule blocks"""
    by_out = {}
    for b in parsed["builds"]:
        for o in b["outs"]: by_out.setdefault(o, []).append(b)
    rules = {r["name"]: r for r in parsed["rules"]}
    seen, out, todo = set(), set(), [target]
    while todo:
        t = todo.pop()
        if t in seen: continue
        seen.add(t)
        for b in by_out.get(t, []):
            out.add(("build", tuple(b["outs"]), b["rule"], tuple(b["inputs"]), tuple(b["deps"])))
            if b["rule"] in rules:
                out.add(("rule", b["rule"], tuple(sorted(rules[b["rule"]]["vars"].items()))))
            todo.extend(b["inputs"]); todo.extend(b["deps"])
    return out

def variants(rng, files, full_builds, tier):
    """selections derived from the full run"""
    builders = sorted({b["builder"] for b in full_builds}); apps = sorted({b["app"] for b in full_builds})
    vs = []
    if builders:
        vs.append(dict(builders=[rng.choice(builders)]))
        vs.append(dict(apps=[rng.choice(apps)]))
        vs.append(dict(builders=rng.sample(builders, min(2, len(builders))), apps=rng.sample(apps, min(2, len(apps)))))
    for n in ((2, 3) if tier == "quick" else (1, 2, 3, 4)):
        for k in range(1, n + 1):
            vs.append(dict(partition=(k, n)))
    # local mode from every directory that declares apps (only when laze would not take a nested directory for the project root)
    if not any(f != "laze-project.yml" and f.endswith("laze-project.yml") for f in files):
        ad = app_dirs(files)
        for d in sorted(ad):
            vs.append(dict(local=d))
            named = sorted(n for n in ad[d] if n)
            if named and len(ad) > 1:
                vs.append(dict(local=d, apps=[rng.choice(named)]))       # local mode AND --apps naming an app of the start directory
    return vs

def app_dirs(files):
    """directory -> names of the apps declared in its lazefiles"""
    import posixpath
    out = {}
    for fn, docs in files.items():
        d = posixpath.dirname(fn) or "."
        for doc in docs:
            if "apps" not in doc: continue
            for a in (doc["apps"] if doc["apps"] is not None else [{}]):
                out.setdefault(d, set()).add(a.get("name") or (d if d != "." else ""))
    return out

def run(rep, tier, seed, rng):
    core.proof_step(rep, "C10", clean=(tier == "thorough"))
    laze = core.build_impl(); driver = core.build_model()
    nproj = 40 if tier == "quick" else 400
    base = []
    from .. import directed
    for f, c in directed.cases_portable():
        if sum(len(doc.get(k) or []) for docs in f.values() for doc in docs for k in ("apps", "builders")) >= 3:
            base.append((f, {k: v for k, v in c.items() if k not in ("builders", "apps", "local")}))
    ndirected = len(base)
    while len(base) < ndirected + nproj:
        f, c = genproj.gen_project(rng, focus=rng.choice([None, "build", "layout", "layout"]))
        c = {k: v for k, v in c.items() if k not in ("builders", "apps", "local")}
        base.append((f, c))
    full = e2e.run_batch(laze, driver, base)
    cases, owner = [], []
    for i, r in enumerate(full):
        if r["impl"]["rc"] != 0 or not r["impl"]["builds"]: continue
        for v in variants(rng, r["files"], r["impl"]["builds"], tier):
            cases.append((r["files"], dict(r["cli"], **v))); owner.append(i)
    sub = e2e.run_batch(laze, driver, cases)
    nchecked = 0; distinct = set(); ndis = 0; skipped_k06 = 0
    shards = {}
    for r in full + sub:
        if r["tags"] & {"crash", "rc", "predicted-panic", "ninja", "configured", "nobuilds"}:
            ndis += 1
            rep.violation("model and implementation disagree: " + "; ".join(r["dis"])[:400], gen_common.replay_data(r), found_input=("crash" in r["tags"]))
    for (f, c), i, r in zip(cases, owner, sub):
        fr = full[i]
        if r["impl"]["rc"] != 0 or r["impl_raw"]["ninja"] is None:
            if "local" in c and c.get("apps"):
                ad = app_dirs(f); here = ad.get(c["local"], set()); elsewhere = set().union(*[v for d, v in ad.items() if d != c["local"]] or [set()])
                if all(a in here - elsewhere for a in c["apps"]) and any(k[1] in c["apps"] for k in ((b["builder"], b["app"]) for b in fr["impl"]["builds"])):
                    rep.violation("local mode from %r with --apps %s (declared there, built by the full run) fails: rc=%s" % (c["local"], c["apps"], r["impl"]["rc"]),
                                  gen_common.replay_data(r), found_input=True)
            continue
        pf = ninja_parse.parse(fr["impl_raw"]["ninja"].decode("utf-8", "replace"))
        ps = ninja_parse.parse(r["impl_raw"]["ninja"].decode("utf-8", "replace"))
        fullb = {(b["builder"], b["app"]): b for b in fr["impl"]["builds"]}
        from .. import manifest_checks as mc
        if any(u for _, _, u in mc.wf_manifest(pf, [])):
            skipped_k06 += 1      # user-chosen outputs collide in the full file (known finding K06 of C06): 'reachable from' is ambiguous
            continue
        for b in r["impl"]["builds"]:
            nchecked += 1
            key = (b["builder"], b["app"])
            if key not in fullb:
                rep.violation("a sub-selection configures a build the full run does not", gen_common.replay_data(r, build=key), found_input=True); continue
            if closure(pf, b["out"]) != closure(ps, b["out"]):
                rep.violation("statements reachable from %s differ between the full run and the sub-selection %s" % (b["out"], {k: c[k] for k in ("builders", "apps", "partition", "local") if k in c}),
                              gen_common.replay_data(r, build=key, full_cli=fr["cli"]), found_input=True)
        if "local" in c:
            # local mode: only apps declared in the start directory, and every build of an app declared only there
            ad = app_dirs(f); here = ad.get(c["local"], set()); elsewhere = set().union(*[v for d, v in ad.items() if d != c["local"]] or [set()])
            got = sorted((b["builder"], b["app"]) for b in r["impl"]["builds"])
            must = sorted(k for k in fullb if k[1] in here - elsewhere and (c.get("apps") is None or k[1] in c["apps"]))
            if any(k[1] not in here for k in got) or any(k not in got for k in must) or (c.get("apps") is not None and any(k[1] not in c["apps"] for k in got)):
                rep.violation("local mode from %r configures %s; the apps declared there are %s and the full run has %s for the apps declared only there"
                              % (c["local"], got, sorted(here), must), gen_common.replay_data(r), found_input=True)
        elif "partition" in c:
            k, n = c["partition"]
            shards.setdefault((i, n), {})[k] = sorted((b["builder"], b["app"]) for b in r["impl"]["builds"])
        else:
            want = sorted(k for k in fullb if (c.get("builders") is None or k[0] in c["builders"]) and (c.get("apps") is None or k[1] in c["apps"]))
            got = sorted((b["builder"], b["app"]) for b in r["impl"]["builds"])
            if want != got:
                rep.violation("sub-selection configures %s, the full run restricted to it %s" % (got, want), gen_common.replay_data(r), found_input=True)
        distinct.add(json.dumps((f, c), sort_keys=True))
    for (i, n), parts in shards.items():
        if len(parts) != n: continue
        allb = sorted(x for p in parts.values() for x in p)
        fullset = sorted((b["builder"], b["app"]) for b in full[i]["impl"]["builds"])
        mb = [(b["builder"], b["app"]) for b in (full[i]["model"].get("builds") or [])]
        if len(mb) != len(set(mb)):
            # an app name declared for two contexts that both reach the builder: two builds with one name, which the
            # info file (a map keyed by name) shows once per run -- compare as sets, disjointness is not observable
            allb = sorted(set(allb)); fullset = sorted(set(fullset))
        if allb != fullset:
            rep.violation("partitions count:1..%d/%d are not a disjoint cover of the unpartitioned set: %s vs %s" % (n, n, allb, fullset),
                          gen_common.replay_data(full[i], partitions=parts), found_input=True)
    # --- hash: partitions (the shard of a build is a hash of "<builder><app>", fixed seed): implementation only —
    # the shards are disjoint, cover the unpartitioned set, and every build's statements equal those of the full run
    # (C10_hash_cover states the cover for ANY shard assignment)
    hjobs = []
    for i in [i for i in range(len(full)) if full[i]["impl"]["rc"] == 0 and len(full[i]["impl"]["builds"]) >= 2][:(16 if tier == "quick" else 160)]:
        for n in (2, 3):
            for k in range(1, n + 1): hjobs.append((i, n, k))
    def hone(j):
        i, n, k = j
        return j, e2e.run_laze(laze, base[i][0], base[i][1], extra_args=["--partition", "hash:%d/%d" % (k, n)])
    from concurrent.futures import ThreadPoolExecutor as _TPE
    with _TPE(core.NCPU) as ex:
        houts = list(ex.map(hone, hjobs))
    hshards = {}; nhash = 0
    for (i, n, k), r in houts:
        nhash += 1
        fr = full[i]
        if r["rc"] != 0 or r["ninja"] is None or r["info"] is None:
            rep.violation("a hash: partition of a project that generates fails: rc=%s" % r["rc"], dict(files=base[i][0], cli=base[i][1], partition="hash:%d/%d" % (k, n)), found_input=True); continue
        got = e2e.parse_impl(r)["builds"]
        hshards.setdefault((i, n), {})[k] = sorted((b["builder"], b["app"]) for b in got)
        pf = ninja_parse.parse(fr["impl_raw"]["ninja"].decode("utf-8", "replace")); ps = ninja_parse.parse(r["ninja"].decode("utf-8", "replace"))
        from .. import manifest_checks as mc
        if any(u for _, _, u in mc.wf_manifest(pf, [])): continue
        for b in got:
            if closure(pf, b["out"]) != closure(ps, b["out"]):
                rep.violation("statements reachable from %s differ between the full run and --partition hash:%d/%d" % (b["out"], k, n),
                              dict(files=base[i][0], cli=base[i][1], partition="hash:%d/%d" % (k, n)), found_input=True)
    for (i, n), parts in hshards.items():
        if len(parts) != n: continue
        allb = sorted(x for p in parts.values() for x in p)
        fullset = sorted((b["builder"], b["app"]) for b in full[i]["impl"]["builds"])
        if len(fullset) == len(set(fullset)) and allb != fullset:
            rep.violation("partitions hash:1..%d/%d are not a disjoint cover of the unpartitioned set: %s vs %s" % (n, n, allb, fullset),
                          dict(files=base[i][0], cli=base[i][1], partitions=parts), found_input=True)
    rep.cov.update(hash_partition_runs=nhash)
    # --- the same selections issued one after the other in ONE build directory (cache in play):
    # every step must leave the file a fresh directory gets for that command line
    fresh = {}
    for (f, c), r in zip(cases, sub):
        fresh[json.dumps((f, c), sort_keys=True)] = r["impl_raw"]["ninja"]
    nseq = 0
    seq_projects = [i for i in range(len(full)) if full[i]["impl"]["rc"] == 0 and full[i]["impl"]["builds"]][:(12 if tier == "quick" else 120)]
    def one(i):
        fr = full[i]
        mine = [(c, fresh[json.dumps((f, c), sort_keys=True)]) for (f, c), o in zip(cases, owner) if o == i and "partition" in c][:3]
        steps = []
        for c, _ in mine[:1]: steps.append(dict(cli=c))
        steps.append(dict(cli=fr["cli"]))
        for c, _ in mine: steps.append(dict(cli=c))
        steps.append(dict(cli=fr["cli"]))
        want = [x[1] for x in mine[:1]] + [fr["impl_raw"]["ninja"]] + [x[1] for x in mine] + [fr["impl_raw"]["ninja"]]
        return i, steps, want, e2e.run_sequence(laze, fr["files"], steps)
    from concurrent.futures import ThreadPoolExecutor
    with ThreadPoolExecutor(core.NCPU) as ex:
        seqs = list(ex.map(one, seq_projects))
    for i, steps, want, got in seqs:
        for k, (st, w, g) in enumerate(zip(steps, want, got)):
            nseq += 1
            if g["rc"] != 0 or g["ninja"] != w:
                rep.violation("in one build directory, step %d (%s) leaves a ninja file different from a fresh generation with the same arguments (cache hit: %s)"
                              % (k, {x: st["cli"].get(x) for x in ("partition", "builders", "apps") if x in st["cli"]}, g["cache_hit"]),
                              dict(files=full[i]["files"], steps=[s["cli"] for s in steps], failing_step=k, rc=g["rc"], cache_hit=g["cache_hit"]),
                              found_input=True)
                break
    rep.cov.update(sequence_steps_in_shared_build_dir=nseq)
    rep.cov.update(evaluations=len(base) + len(cases), distinct_nontrivial=len(distinct),
                   rule="directed corpus + random projects; each is generated in full (global mode) and then with single builder, single app, a 2x2 subset, every count:k/N (N in 2,3 quick; 1..4 thorough) and in local mode from every directory that declares apps; "
                        "per configured build the closure of statements reachable from its output is compared between runs; shards are checked to be a disjoint cover; "
                        "every run is also compared byte-for-byte with the model; non-trivial = a sub-selection run of a project with >=1 configured build",
                   samples=[dict(cli=cases[0][1]) if cases else {}], builds_compared=nchecked, disagreements=ndis, runs_skipped_for_K06_collisions=skipped_k06)
    rep.assumptions.append("hash: partitions are exercised on the implementation alone (xxhash of the pair name is not modelled); the cover is theorem C10_hash_cover for any shard assignment")
