"""C09 — generation is deterministic: repeated launches with different worker-thread counts write
byte-identical ninja and info-export files, equal to the model's; plus the inventory of
unordered containers in the sources."""
import json, os
from concurrent.futures import ThreadPoolExecutor
from .. import core, e2e, genproj, inventory
from . import gen_common

def run(rep, tier, seed, rng):
    core.proof_step(rep, "C09", clean=(tier == "thorough"))
    # --- inventory of unordered containers (regenerated from /repo's sources on every run)
    inv = {x["line"]: x["class"] for x in json.load(open(os.path.join(core.VERIF, "corpus", "unordered_inventory.json")))}
    now = inventory.scan(core.REPO)
    new, gone = inventory.compare(list(inv), now)      # on normalised text: renaming a variable or field is not a change
    laze = core.build_impl(); driver = core.build_model()
    nproj = 48 if tier == "quick" else 400
    threads = [1, 2, 5, 16] if tier == "quick" else [1, 2, 3, 5, 8, 16]
    launches = 3 if tier == "quick" else 6
    cases = [genproj.gen_project(rng, focus=("maps" if i % 2 == 0 else "build")) for i in range(nproj)]
    # wide projects: many (builder, app) pairs with statement sets of very different sizes, so that any way of
    # splitting the pair list among worker threads (chunking, work stealing) would show in the order of the file
    from .. import directed
    for nb, na in ((4, 16), (3, 24), (8, 9)) if tier == "quick" else ((4, 16), (3, 24), (8, 9), (6, 20), (2, 50)):
        mods = [{"name": "lib%d" % k, "sources": ["lib%d_%d.c" % (k, j) for j in range(1 + (k * 7) % 5)]} for k in range(6)]
        apps = [{"name": "app%02d" % a, "sources": ["a%02d_%d.c" % (a, j) for j in range(1 + (a * 5) % 17)],
                 "selects": ["lib%d" % ((a + j) % 6) for j in range(a % 4)]} for a in range(na)]
        cases.append((directed.base(mods, apps, builders=[{"name": "b%d" % i, "env": {"X": "x%d" % i}} for i in range(nb)]), {}))
    # several files exported by several global build deps (the order-only section of every LINK statement), and
    # the directed corpus (one shape per former defect)
    gmods = [{"name": "g%d" % k, "is_global_build_dep": True, "build": {"cmd": ["gen%d > ${out}" % k], "out": ["g%d_a.h" % k, "g%d_b.h" % k]}} for k in range(4)]
    cases.append((directed.base(gmods + [{"name": "lib", "sources": ["lib.c"]}],
                                [{"name": "app1", "sources": ["main.c"], "depends": ["g0", "g1", "g2", "g3", "lib"]},
                                 {"name": "app2", "sources": ["main.c"], "depends": ["g3", "g2", "g1", "g0", "lib"]}]), {}))
    cases += [(f, {k: v for k, v in c.items() if k != "local"}) for f, c in directed.cases_portable()]        # (the scratch directory differs between launches)
    nproj = len(cases)
    base = e2e.run_batch(laze, driver, cases)
    jobs = [(i, t, k) for i in range(nproj) for t in threads for k in range(launches if t == threads[-1] else 1)]
    def one(job):
        i, t, k = job
        r = e2e.run_laze(laze, cases[i][0], cases[i][1], threads=t)
        # scratch roots differ between launches: project-root appears in no output unless a variable echoes it
        return job, r
    with ThreadPoolExecutor(core.NCPU) as ex:
        runs = list(ex.map(one, jobs))
    distinct = set(); nruns = 0; ndis = 0
    for (i, t, k), r in runs:
        nruns += 1
        b = base[i]
        if b["impl_raw"]["rc"] != r["rc"] or b["impl_raw"]["ninja"] != r["ninja"] or b["impl_raw"]["info"] != r["info"] or b["impl_raw"].get("info_raw") != r.get("info_raw"):
            rep.violation("repeated launch (RAYON_NUM_THREADS=%d, launch %d) differs from the first run: %s" %
                          (t, k, "exit status" if b["impl_raw"]["rc"] != r["rc"] else "ninja file" if b["impl_raw"]["ninja"] != r["ninja"] else "info-export"),
                          dict(files=cases[i][0], cli=cases[i][1], threads=t, launch=k, argv=r["argv"]), found_input=True)
    # --- the file for a command line does not depend on what was generated in the build directory before:
    # a wider run first, then the narrower one, against the narrower one in a fresh directory
    seqs = []
    for i, b in enumerate(base):
        bs = sorted({x["builder"] for x in (b["impl"].get("builds") or [])}) if b["impl"]["rc"] == 0 else []
        if len(bs) >= 1 and len(b["impl"]["builds"]) >= 2 and len(seqs) < (24 if tier == "quick" else 200):
            seqs.append((i, dict(cases[i][1], builders=bs[:1], define=(cases[i][1].get("define") or []) + ["CFLAGS+=-Dnarrow"])))
    def seq_one(item):
        i, narrow = item
        got = e2e.run_sequence(laze, cases[i][0], [dict(cli=cases[i][1]), dict(cli=narrow)])
        fresh = e2e.run_laze(laze, cases[i][0], narrow, info=False)
        return i, narrow, got, fresh
    with ThreadPoolExecutor(core.NCPU) as ex:
        for i, narrow, got, fresh in ex.map(seq_one, seqs):
            nruns += 3
            if got[1]["rc"] == 0 and fresh["rc"] == 0 and got[1]["ninja"] != fresh["ninja"]:
                rep.violation("the ninja file written for a command line depends on what was generated in the build directory before (a wider run first): %d bytes after the wider run, %d in a fresh directory"
                              % (len(got[1]["ninja"] or b""), len(fresh["ninja"] or b"")),
                              dict(files=cases[i][0], first=cases[i][1], second=narrow), found_input=True)
    for c, b in zip(cases, base):
        txt = json.dumps(c[0])
        if b["model"]["kind"] == "ok" and b["model"]["builds"] and (txt.count('": ["') > 3):
            distinct.add(json.dumps(c, sort_keys=True))
        if b["tags"] & {"crash", "rc", "predicted-panic", "ninja", "configured", "modules", "order", "nobuilds"}:
            ndis += 1
            rep.violation("model and implementation disagree: " + "; ".join(b["dis"])[:400], gen_common.replay_data(b),
                          found_input=False)
    if new:
        rep.violation("unordered containers in the sources that the reviewed inventory does not list (new: %d, gone: %d): the model has no iteration-order argument for a new site"
                      % (len(new), len(gone)), dict(new=new[:20], gone=gone[:20], inventory="corpus/unordered_inventory.json"), found_input=False)
    rep.cov.update(evaluations=nproj + nruns, distinct_nontrivial=len(distinct),
                   rule="random projects (1/2 from the maps-focused generator: multi-key if-then maps, multi-key optional-source maps, multi-key export maps, several -D; "
                        "1/2 build-focused: modules using several build-dep modules), wide projects, several global build deps, the directed corpus; each launched with RAYON_NUM_THREADS in %s and %d extra launches at 16 threads (fresh process, fresh hash seeds); ninja file, "
                        "info-export and exit status compared byte-for-byte with the first launch and the ninja file with the model; non-trivial = project with multi-key maps and >=1 configured build"
                        % (threads, launches - 1),
                   samples=[dict(cli=cases[0][1], threads=threads)], launches=nruns, inventory_lines=len(now), inventory_new=len(new), inventory_gone=len(gone),
                   disagreements=ndis)
    rep.assumptions.append("real rayon schedules and SipHash seeds are sampled, not enumerated; rayon's indexed collect preserving order is a library guarantee")
    rep.assumptions.append("the inventory is line-based on normalised text (variable/field names blanked): a re-wrapped line or another method on a HashMap/HashSet still breaks the tie (reported as no-failing-input-found); a removed site does not")
