"""C07 — objects are shared exactly when their compile statements are identical."""
import json
from .. import core, manifest_checks as mc
from . import gen_common
from .c06 import nonshareable

PIECES = ["a", "b", "lib", "src", "x.c", "y.tar.gz", ".hidden", "a.", "..", ".", "", "build", "dl", "nrfx", "nrfx_hal", "ü", "${V}", "x.${E}", "main.o", "o"]

def rand_path(rng):
    n = rng.randint(0, 4)
    p = "/".join(rng.choice(PIECES) for _ in range(n))
    if rng.random() < 0.15: p = "/" + p
    if rng.random() < 0.15: p = p + "/"
    if rng.random() < 0.1: p = "./" + p
    return p

def path_requests(rng, n):
    """the camino operations the generator and the loader rely on, on adversarial path spellings"""
    hx = core.hexs
    out = []
    for _ in range(n):
        a, b = rand_path(rng), rand_path(rng)
        if rng.random() < 0.4:                      # related paths: b a prefix of a (by components or only by characters)
            cut = a.split("/"); b = "/".join(cut[:rng.randint(0, len(cut))]) + rng.choice(["", "", "/", "x"])
        op = rng.choice(["push", "ext", "withext", "parent", "startswith", "ncomp", "stripprefix", "stripprefix", "patheq", "sort"])
        if op == "sort":
            args = [rand_path(rng) for _ in range(rng.randint(2, 5))]
        elif op in ("ext", "parent", "ncomp"): args = [a]
        elif op == "withext": args = [a, rng.choice(["o", "", "123.o", "tar.gz"])]
        else: args = [a, b]
        out.append("path %s %d %s" % (op, len(args), " ".join(hx(x) for x in args)))
    return out

def witness_slash_names(laze):
    """builder a/b + app c and builder a + app b/c: one 'private' object directory build/objects/a/b/c for both"""
    from .. import e2e, ninja_parse
    rules = [{"name": "AS", "in": "S", "out": "o", "cmd": "as ${ASFLAGS} ${in} -o ${out}", "shareable": False}, {"name": "LINK", "in": "o", "cmd": "ld ${in} -o ${out}"}]
    f = {"laze-project.yml": [{"contexts": [{"name": "default", "rules": rules, "env": {"bindir": "build/${builder}/${app}"}}],
                               "builders": [{"name": "a/b", "env": {"ASFLAGS": "-DAB"}}, {"name": "a", "env": {"ASFLAGS": "-DA"}}],
                               "apps": [{"name": "c", "sources": ["x.S"], "blocklist": ["a"]}, {"name": "b/c", "sources": ["x.S"], "blocklist": ["a/b"]}]}]}
    r = e2e.run_laze(laze, f, {}, info=False)
    if r["rc"] != 0 or r["ninja"] is None: return False
    p = ninja_parse.parse(r["ninja"].decode("utf-8", "replace"))
    outs = [tuple(b["outs"]) for b in mc.compile_stmts(p)]
    return len(outs) == 2 and outs[0] == outs[1]

KNOWN = {"K07:slash-in-names": witness_slash_names}

def run(rep, tier, seed, rng):
    core.proof_step(rep, "C07", clean=(tier == "thorough"))
    # object paths are built with camino's push / with_extension / starts_with: the model's Path.v against camino itself
    preqs = path_requests(rng, 3000 if tier == "quick" else 60000)
    laze0 = core.build_impl(); driver0 = core.build_model()
    pa = core.run_impl_oracle(laze0, preqs); pb = core.run_model(driver0, preqs)
    npath_dis = 0
    for q, x, y in zip(preqs, pa, pb):
        if x.strip() != y.strip():
            npath_dis += 1
            if npath_dis <= 5:
                t = q.split()
                rep.violation("path operation %s: camino and the model's Path.v differ" % t[1],
                              dict(op=t[1], args=[core.unhexs(z) for z in t[3:]], impl=x, model=y), found_input=False)
    rep.cov.update(path_operations_compared=len(preqs), path_disagreements=npath_dis)
    cases = gen_common.load_cases(rng, tier, 300, 5000, focus="build")
    laze, driver, results = gen_common.run_cases(cases)
    distinct = set(); ndis = 0; npairs = 0
    for c, r in zip(cases, results):
        if r["impl_parsed"] is not None:
            ns = nonshareable(r["files"])
            for clause, inp, detail in mc.sharing(r["impl_parsed"], ns, r["impl"]["builds"]):
                rep.violation("object sharing violates C07: %s for %s" % (clause, inp),
                              gen_common.replay_data(r, clause=clause, source=inp, detail=detail), found_input=True)
            cs = mc.compile_stmts(r["impl_parsed"])
            inputs = [b["inputs"][0] for b in cs]
            if len(r["impl"]["builds"]) >= 2 and len(inputs) != len(set(inputs)):
                distinct.add(json.dumps(c, sort_keys=True))
            npairs += len(inputs) - len(set(inputs))
        if r["tags"] & {"crash", "rc", "predicted-panic"}:
            ndis += 1
            rep.violation("model and implementation disagree: " + "; ".join(r["dis"])[:400], gen_common.replay_data(r), found_input=("crash" in r["tags"]))
        elif r["impl_parsed"] and r["model_parsed"] and mc.compile_view(r["impl_parsed"]) != mc.compile_view(r["model_parsed"]):
            ndis += 1
            rep.violation("compile statements (source, rule, object path) differ from the model", gen_common.replay_data(r),
                          found_input=False)
    open_known = {k["key"] for k in core.load_known() if k.get("property") == "C07" and k.get("status") == "open"}
    wit = {}
    for key, fn in KNOWN.items():
        try: wit[key] = bool(fn(laze))
        except Exception as e: wit[key] = "error: %s" % e
        if wit[key] is True and key not in open_known:
            rep.violation("two builds share one 'private' object of a non-shareable rule (%s)" % key, dict(witness=key), found_input=True)
    rep.cov.update(known_finding_witnesses=wit)
    rep.cov.update(evaluations=len(cases), distinct_nontrivial=len(distinct),
                   rule="corpus + random projects (several builders compiling the same sources, env differing in variables the rule uses or not, build deps, "
                        "non-shareable rule AS); the sharing predicate is evaluated on all pairs of compile statements of one source in every written file; "
                        "non-trivial = >=2 configured builds with a source compiled more than once",
                   samples=[dict(cli=results[-1]["cli"], compile=mc.compile_view(results[-1]["impl_parsed"])[:3] if results[-1]["impl_parsed"] else [])],
                   sources_compiled_more_than_once=npairs, disagreements=ndis, **gen_common.stats(cases, results))
    rep.assumptions.append("hash injectivity (SipHash-1-3 collision-free on one project's rules and dependency lists) is a hypothesis of the iff theorem")
