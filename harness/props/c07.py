"""C07 — objects are shared exactly when their compile statements are identical."""
import json
from .. import core, manifest_checks as mc
from . import gen_common
from .c06 import nonshareable

def run(rep, tier, seed, rng):
    core.proof_step(rep, "C07", clean=(tier == "thorough"))
    cases = gen_common.load_cases(rng, tier, 300, 5000, focus="build")
    laze, driver, results = gen_common.run_cases(cases)
    distinct = set(); ndis = 0; npairs = 0
    for c, r in zip(cases, results):
        if r["impl_parsed"] is not None:
            ns = nonshareable(r["files"])
            for clause, inp, detail in mc.sharing(r["impl_parsed"], ns, r["impl"]["builds"]):
                rep.violation("object sharing violates C07: %s for %s" % (clause, inp),
                              gen_common.replay_data(r, clause=clause, source=inp, detail=detail), found_input=True)
            cs = mc.compile_stmts(r["impl_parsed"])
            inputs = [b["inputs"][0] for b in cs]
            if len(r["impl"]["builds"]) >= 2 and len(inputs) != len(set(inputs)):
                distinct.add(json.dumps(c, sort_keys=True))
            npairs += len(inputs) - len(set(inputs))
        if r["tags"] & {"crash", "rc", "predicted-panic"}:
            ndis += 1
            rep.violation("model and implementation disagree: " + "; ".join(r["dis"])[:400], gen_common.replay_data(r), found_input=False)
        elif r["impl_parsed"] and r["model_parsed"] and mc.compile_view(r["impl_parsed"]) != mc.compile_view(r["model_parsed"]):
            ndis += 1
            rep.violation("compile statements (source, rule, object path) differ from the model", gen_common.replay_data(r),
                          found_input=False)
    rep.cov.update(evaluations=len(cases), distinct_nontrivial=len(distinct),
                   rule="corpus + random projects (several builders compiling the same sources, env differing in variables the rule uses or not, build deps, "
                        "non-shareable rule AS); the sharing predicate is evaluated on all pairs of compile statements of one source in every written file; "
                        "non-trivial = >=2 configured builds with a source compiled more than once",
                   samples=[dict(cli=results[-1]["cli"], compile=mc.compile_view(results[-1]["impl_parsed"])[:3] if results[-1]["impl_parsed"] else [])],
                   sources_compiled_more_than_once=npairs, disagreements=ndis, **gen_common.stats(cases, results))
    rep.assumptions.append("hash injectivity (SipHash-1-3 collision-free on one project's rules and dependency lists) is a hypothesis of the iff theorem")
