"""C06 — the generated ninja file is a well-formed build graph."""
import json
from .. import core, genproj, manifest_checks as mc
from . import gen_common

def nonshareable(files):
    return {r["name"] for docs in files.values() for d in docs for c in (d.get("contexts") or []) + (d.get("builders") or [])
            for r in (c.get("rules") or []) if r.get("shareable", r.get("sharable", True)) is False}

def witness_pipe_in_path(laze):
    """a source name with a `|` (ninja has no escape for it): two builders both 'produce' the part before the pipe"""
    from .. import directed, e2e, ninja_parse
    f = directed.base([], [{"name": "app", "sources": ["a|b.c"]}])
    r = e2e.run_laze(laze, f, {}, info=False)
    if r["rc"] != 0 or r["ninja"] is None: return False
    p = ninja_parse.parse(r["ninja"].decode("utf-8", "replace"))
    return any(cl == "output-produced-twice" for cl, _, _ in mc.wf_manifest(p, []))

def witness_same_stem(laze):
    """x.c and x.cpp compiled by rules of one NAME (declared for the two extensions in two contexts): the object name is
    made of the stem and the hash of the named rule, so both sources claim one object"""
    from .. import directed, e2e, ninja_parse
    f = directed.base([], [{"name": "app", "sources": ["x.c", "x.cpp"]}],
                      builders=[{"name": "b0", "rules": [{"name": "CC", "in": "cpp", "out": "o", "cmd": "cc ${CFLAGS} ${X} -c ${in} -o ${out}"}]}])
    r = e2e.run_laze(laze, f, {}, info=False)
    if r["rc"] != 0 or r["ninja"] is None: return False
    p = ninja_parse.parse(r["ninja"].decode("utf-8", "replace"))
    return any(cl == "output-produced-twice" for cl, _, _ in mc.wf_manifest(p, []))

KNOWN = {"K06:pipe-in-path": witness_pipe_in_path, "K06:same-stem-same-rule-name": witness_same_stem}

def run(rep, tier, seed, rng):
    core.proof_step(rep, "C06", clean=(tier == "thorough"))
    cases = gen_common.load_cases(rng, tier, 300, 5000, focus="build")
    laze, driver, results = gen_common.run_cases(cases)
    known = [k for k in core.load_known() if k["property"] == "C06" and k["status"] == "open"]
    nuser = 0; distinct = set(); ndis = 0; nfiles = 0; ndlclash = 0
    for c, r in zip(cases, results):
        if r["impl_parsed"] is not None:
            nfiles += 1
            req = [b["out"] for b in r["impl"]["builds"]]
            _, clash = mc.download_dirs(c[0])
            # one (builder, app) pair is configured once: two apps of one name on a builder's chain would both
            # claim <bindir>/<app>.elf (repaired by 94ae0f6: the nearer definition shadows the other)
            conf = r["impl"].get("configuring") or []
            twice = sorted({p for p in conf if conf.count(p) > 1})
            if twice:
                rep.violation("the same (builder, app) is configured twice, both builds claim one output file: %s" % (twice[:3],),
                              gen_common.replay_data(r, clause="build-configured-twice", detail=str(twice[:3])), found_input=True)
                continue
            for clause, detail, user in mc.wf_manifest(r["impl_parsed"], req):
                if clause == "output-produced-twice" and any(mc.norm(detail).startswith(d + "/") for d in clash):
                    ndlclash += 1       # two module definitions share a download directory: known finding K06:download-dir-clash
                    continue
                if user:
                    nuser += 1          # user-chosen outputs colliding: known finding class K06:user-chosen-output
                    continue
                rep.violation("generated file is not a well-formed build graph: %s (%s)" % (clause, detail),
                              gen_common.replay_data(r, clause=clause, detail=detail), found_input=True)
            for clause, detail in mc.under_builddir(r["impl_parsed"]):
                rep.violation("laze-chosen path outside the build directory: %s" % detail,
                              gen_common.replay_data(r, clause=clause, detail=detail), found_input=True)
            if len(r["impl"]["builds"]) >= 2: distinct.add(json.dumps(c, sort_keys=True))
        if r["tags"] & {"crash", "rc", "predicted-panic", "ninja", "configured"}:
            ndis += 1
            rep.violation("model and implementation disagree: " + "; ".join(r["dis"])[:400], gen_common.replay_data(r), found_input=("crash" in r["tags"]))
        if r["model"]["kind"] == "ok" and r["model"].get("wf") is False and r["impl_parsed"] is not None:
            # the model's own file fails wf_manifestb: only acceptable for the user-chosen class
            _, clash = mc.download_dirs(c[0])
            if not any(u or any(mc.norm(dt).startswith(d + "/") for d in clash)
                       for _, dt, u in mc.wf_manifest(r["model_parsed"], [b["out"] for b in r["model"]["builds"]])):
                rep.violation("model file fails wf_manifestb outside the known class", gen_common.replay_data(r), found_input=("crash" in r["tags"]))
    # other build directories (-B): the paths laze chooses follow ${build-dir}
    bcases = []
    for _ in range(30 if tier == "quick" else 400):
        f, c = genproj.gen_project(rng, focus="build")
        c = dict({k: v for k, v in c.items() if k != "local"}, build_dir=rng.choice(["out", "b/nested", "build2", "o.d"]))
        bcases.append((f, c))
    _l, _d, bres = gen_common.run_cases(bcases)
    nbd = 0
    for (f, c), r in zip(bcases, bres):
        nbd += 1
        if r["tags"] & {"crash", "rc", "predicted-panic", "ninja", "configured"}:
            ndis += 1
            rep.violation("model and implementation disagree with -B %s: %s" % (c["build_dir"], "; ".join(r["dis"])[:300]), gen_common.replay_data(r), found_input=("crash" in r["tags"]))
        parsed = r.get("impl_parsed")
        if parsed is not None:
            for clause, detail in mc.under_builddir(parsed, c["build_dir"]):
                rep.violation("laze-chosen path outside the build directory %s: %s" % (c["build_dir"], detail), gen_common.replay_data(r, clause=clause, detail=detail), found_input=True)
    rep.cov.update(other_build_dirs=nbd)
    wit = {}
    for key, fn in KNOWN.items():
        try: wit[key] = bool(fn(laze))
        except Exception as e: wit[key] = "error: %s" % e
        if wit[key] is True and key not in {k["key"] for k in known}:
            rep.violation("generated file is not a well-formed build graph (%s)" % key, dict(witness=key), found_input=True)
    rep.cov.update(known_finding_witnesses=wit)
    if nuser and not known:
        rep.violation("user-chosen outputs collide but no known finding is recorded", {}, found_input=False)
    rep.cov.update(evaluations=len(cases), distinct_nontrivial=len(distinct),
                   rule="corpus + random projects (half with the build-focused generator: custom builds, build deps, several builders); every written file is "
                        "parsed and checked with the wf_manifest predicate (Coq twin wf_manifestb evaluated on the model's file); non-trivial = >=2 configured builds",
                   samples=[dict(cli=results[-1]["cli"], n_statements=len(results[-1]["impl_parsed"]["builds"]) if results[-1]["impl_parsed"] else 0)],
                   files_checked=nfiles, user_chosen_collisions=nuser, download_dir_clashes=ndlclash, disagreements=ndis, **gen_common.stats(cases, results))
    rep.assumptions.append("no ninja binary in the sandbox: 'ninja can load it' is the predicate wf_manifest written from ninja's loading rules")
    rep.assumptions.append("blanks and colons in paths are escaped (fix 20ce961) and generated; `|` and `$` in paths are outside the generator: ninja has no escape for `|` (open finding K06:pipe-in-path, witness run on every check) and reads `$x` as a variable")
