"""C08 — a cache hit is indistinguishable from regenerating.
Histories of runs / edits / kills in one build directory: the implementation against the cache
machine of coq/model/Cache.v (correspondence), and the property itself evaluated on the
implementation (last run of the history against the same run in an empty build directory)."""
import json, os, random, shutil, subprocess, time
from collections import Counter
from concurrent.futures import ThreadPoolExecutor
from .. import core, hist, directed, proj

def base_project():
    mods = [{"name": "lib", "sources": ["lib.c"], "env": {"global": {"CFLAGS": ["-Dlib"]}}},
            {"name": "opt", "sources": ["opt.c"], "env": {"global": {"CFLAGS": ["-Dopt"]}}}]
    apps = [{"name": "a1", "sources": ["main.c"], "selects": ["lib"]}, {"name": "a2", "sources": ["m2.c"]},
            {"name": "a3", "sources": ["m3.c"], "selects": ["?opt"]}]
    f = directed.base(mods, apps, builders=[{"name": "b0"}, {"name": "b1", "env": {"X": "bx"}}, {"name": "b2", "env": {"X": "b2"}}])
    f["laze-project.yml"][0]["contexts"][0]["tasks"] = {"info": {"cmd": [mcn_task_cmd()], "build": False}}
    return f

def mcn_task_cmd():
    from . import main_common as mcn
    return mcn.TASK_CMD

def _unused():
    return None

def directed_histories():
    """one history per clause / former defect; each ends in the run that the clause is about"""
    f = base_project()
    v2 = [dict(f["laze-project.yml"][0])]
    v2[0] = json.loads(json.dumps(v2[0])); v2[0]["contexts"][0]["env"]["CFLAGS"] = ["-Dedited"]
    vs = {"laze-project.yml": [f["laze-project.yml"], v2]}
    t1 = {"laze-project.yml": 1}; t2 = {"laze-project.yml": 2}
    def R(cli, stop=0, **sc):
        b = sc.pop("bin", 1)
        return dict(op="run", cli=cli, stop=stop, sc=sc, bin=b)
    E = lambda t: dict(op="edit", tree=t)
    H = lambda name, ops: (name, dict(versions=vs, tree0=t1, ops=ops))
    b0 = {"builders": ["b0"]}
    out = [
        H("a failing run in between", [R(b0), R({"builders": ["b0"], "define": ["X=${no_such_variable}"]}), R(b0)]),
        H("unknown builder in between", [R(b0), R({"builders": ["nosuch"]}), R(b0)]),
        H("identical command line, several defines", [R({"define": ["A=1", "B=2", "C=3"]}), R({"define": ["A=1", "B=2", "C=3"]})]),
        H("defines in another order", [R({"define": ["A=1", "B=2"]}), R({"define": ["B=2", "A=1"]})]),
        H("define values swapped", [R({"define": ["X=1", "CFLAGS=0"]}), R({"define": ["X=0", "CFLAGS=1"]})]),
        H("equal define values changed together", [R({"define": ["X=1", "CFLAGS=1"]}), R({"define": ["X=0", "CFLAGS=0"]})]),
        H("define assigned, then appended", [R({"define": ["CFLAGS=-g"]}), R({"define": ["CFLAGS+=-g"]})]),
        H("define appended twice, then as one value", [R({"define": ["CFLAGS+=-a", "CFLAGS+=-b"]}), R({"define": ["CFLAGS+=-a -b"]})]),
        H("task for one build after a run for all", [R({}), R({"builders": ["b1"], "apps": ["a1"]}, task="info")]),
        H("task with -m for one builder after a run for all", [R({}), R({"builders": ["b2"]}, task="info", multiple=True)]),
        H("unknown builder after a run for all", [R({}), R({"builders": ["nosuch"]})]),
        H("unknown app after a run for all", [R({}), R({"apps": ["nosuch"]})]),
        H("narrower builders after a run for all", [R({}), R({"builders": ["b2", "b0"]})]),
        H("other builder order", [R({"builders": ["b0", "b1"]}), R({"builders": ["b1", "b0"]})]),
        H("partition, narrower selection", [R({"partition": (1, 2)}), R({"builders": ["b1"], "partition": (1, 2)})]),
        H("partition changed", [R({"partition": (1, 2)}), R({"partition": (2, 2)})]),
        H("other builder order under a partition (a partition counts positions)", [R({"builders": ["b0", "b1"], "partition": (1, 2)}), R({"builders": ["b1", "b0"], "partition": (1, 2)})]),
        H("other builder order under a partition, three builders", [R({"builders": ["b0", "b1", "b2"], "partition": (2, 3)}), R({"builders": ["b2", "b1", "b0"], "partition": (2, 3)}), R({"builders": ["b0", "b1", "b2"], "partition": (2, 3)})]),
        H("select changed", [R({}), R({"select": ["opt"]}), R({})]),
        H("select order changed", [R({"select": ["opt", "lib"]}), R({"select": ["lib", "opt"]})]),
        H("disable order changed", [R({"disable": ["opt", "lib"]}), R({"disable": ["lib", "opt"]})]),
        H("select repeated", [R({"select": ["opt"]}), R({"select": ["opt", "opt"]})]),
        H("a failing run with --info-export (it does not read the cache, but it rewrites the ninja file), then the first command again",
          [R({}), R({"apps": ["nosuchapp"]}, info=True), R({})]),
        H("a run with --info-export killed after it truncated the ninja file, then the first command", [R(b0), R(b0, stop=3, info=True), R(b0)]),
        H("--info-export never reads the cache, but writes it", [R(b0, info=True), R(b0, info=True), R(b0)]),
        H("the cache file is truncated to nothing (a kill inside its write)", [R({}), dict(op="corrupt", local=False, size=0), R({})]),
        H("the cache file is truncated inside the binary stamp", [R({}), dict(op="corrupt", local=False, size=8), R({"builders": ["b1"]})]),
        H("the cache file is truncated after the stamp", [R(b0), dict(op="corrupt", local=False, size=40), R(b0), R(b0)]),
        H("optional select, then the same name as a hard select (it does not exist: every build goes)", [R({"select": ["?nosuchmodule"]}), R({"select": ["nosuchmodule"]})]),
        H("hard select, then the same name as an optional one", [R({"select": ["nosuchmodule"]}), R({"select": ["?nosuchmodule"]})]),
        H("optional and hard select of a module one builder disables", [R({"select": ["?opt"], "disable": []}), R({"select": ["opt"]}), R({"select": ["?opt"]})]),
        H("disable changed", [R({}), R({"disable": ["lib"]}), R({})]),
        H("another laze binary", [R({}), R({}, bin=2), R({}, bin=2)]),
        H("another laze binary, narrower arguments", [R({}), R(b0, bin=2)]),
        H("another laze binary after a killed run", [R({}), R(b0, stop=5), R({}, bin=2), R(b0, bin=3)]),
        H("another laze binary, task run", [R({}), R({"builders": ["b1"], "apps": ["a1"]}, bin=2, task="info")]),
        H("file edited", [R({}), E(t2), R({})]),
        H("file edited and reverted", [R({}), E(t2), E(t1), R({})]),
        H("file edited, run, reverted", [R({}), E(t2), R({}), E(t1), R({})]),
    ]
    # a selection that matches no configured build (the app is blocklisted for the builder) after a run for all
    bf = base_project()
    bf["laze-project.yml"][0]["apps"][1]["blocklist"] = ["b1"]
    bvs = {k: [v] for k, v in bf.items()}; bt = {k: 1 for k in bf}
    out += [("selection without any configured build after a run for all", dict(versions=bvs, tree0=bt, ops=[R({}), R({"builders": ["b1"], "apps": ["a2"]})])),
            ("selection without any configured build, cold and again", dict(versions=bvs, tree0=bt, ops=[R({"builders": ["b1"], "apps": ["a2"]}), R({"builders": ["b1"], "apps": ["a2"]})]))]
    # local mode from nested directories (each has its own lazefile): the local cache is keyed by the start directory
    nf = base_project()
    nf["laze-project.yml"][0]["subdirs"] = ["apps"]
    nf["apps/laze.yml"] = [{"apps": [{"name": "top", "sources": ["top.c"]}], "subdirs": ["a1", "a2"]}]
    nf["apps/a1/laze.yml"] = [{"apps": [{"name": "inner1", "sources": ["i1.c"], "selects": ["lib"]}]}]
    nf["apps/a2/laze.yml"] = [{"apps": [{"name": "inner2", "sources": ["i2.c"]}]}]
    nvs = {k: [v] for k, v in nf.items()}; nt = {k: 1 for k in nf}
    NH = lambda name, ops: (name, dict(versions=nvs, tree0=nt, ops=ops))
    out += [NH("local mode: parent directory, then nested directory", [R({"local": "apps"}), R({"local": "apps/a1"})]),
            NH("local mode: nested directory, then its parent", [R({"local": "apps/a1"}), R({"local": "apps"})]),
            NH("local mode: sibling directories", [R({"local": "apps/a1"}), R({"local": "apps/a2"}), R({"local": "apps/a1"})]),
            NH("local mode: root, then nested, then global", [R({"local": "."}), R({"local": "apps/a2"}), R({}), R({"local": "apps/a2"})]),
            NH("local mode: nested directory with a builder selection after its parent", [R({"local": "apps"}), R({"local": "apps/a1", "builders": ["b1"]})])]
    # a file the project lists (subdirs: / includes:) is missing, then appears (and goes again): a run with the file
    # missing fails and leaves no cache that a later run could accept
    nt_missing = {k: v for k, v in nt.items() if k != "apps/a2/laze.yml"}
    out += [NH("a listed subdir's file is missing, then appears", [dict(op="edit", tree=nt_missing), R({}), E(nt), R({})]),
            NH("a listed subdir's file disappears after a run and comes back", [R({}), E(nt_missing), R({}), E(nt), R({})]),
            NH("a listed subdir's file is missing in local mode, then appears", [dict(op="edit", tree=nt_missing), R({"local": "apps"}), E(nt), R({"local": "apps"})])]
    # a project whose ninja file is larger than the writer's buffer (8 KiB): a run killed while writing has part of
    # its output on disk already; whatever file that is, a later, much shorter generation must not inherit its tail
    wmods = [{"name": "w%d" % i, "sources": ["w%d_%d.c" % (i, j) for j in range(4)]} for i in range(6)]
    wapps = [{"name": "wa%02d" % i, "sources": ["wa%02d.c" % i], "selects": ["w%d" % (i % 6), "w%d" % ((i + 1) % 6)]} for i in range(16)]
    wf = directed.base(wmods, wapps, builders=[{"name": "b0"}, {"name": "b1", "env": {"X": "bx"}}, {"name": "b2", "env": {"X": "b2"}}])
    wvs = {"laze-project.yml": [wf["laze-project.yml"]]}
    for k in (4, 5, 6):
        out.append(("wide project: killed at %s, then a narrow run" % hist.FAULTS[k],
                    dict(versions=wvs, tree0=t1, ops=[R({}, stop=k), R({"builders": ["b1"], "apps": ["wa03"]}), R({"builders": ["b1"], "apps": ["wa03"]})])))
        out.append(("wide project: complete, killed at %s, narrow run with another -D" % hist.FAULTS[k],
                    dict(versions=wvs, tree0=t1, ops=[R({}), R({"define": ["CFLAGS+=-Dx"]}, stop=k), R({"builders": ["b0"], "apps": ["wa00"], "define": ["CFLAGS+=-Dy"]})])))
    for k in sorted(hist.FAULTS):
        out.append(H("killed at %s, then the old arguments" % hist.FAULTS[k], [R(b0), R({"builders": ["b1"]}, stop=k), R(b0)]))
        out.append(H("killed at %s, then the same arguments" % hist.FAULTS[k], [R(b0), R({"builders": ["b1"]}, stop=k), R({"builders": ["b1"]})]))
        out.append(H("edit, killed at %s, revert" % hist.FAULTS[k], [R({}), E(t2), R({}, stop=k), E(t1), R({})]))
    return out

def import_histories():
    """`imports:`: the symlinked form is not in the model; all of these histories are checked on the
    implementation alone — the last run against the same run in an empty build directory, identical re-run hits —
    and the plain ones (local import without symlink, modelled) also step by step against the cache machine"""
    out = []
    for symlink in (True, False):
        f = base_project()
        doc = json.loads(json.dumps(f["laze-project.yml"][0]))
        doc["imports"] = [dict({"path": "vendor/libfoo", "name": "libfoo"}, **({"symlink": True} if symlink else {}))]
        doc["apps"][0].setdefault("depends", []).append("libfoo")
        lib1 = [{"modules": [{"name": "libfoo", "sources": ["foo.c"]}]}]
        lib2 = [{"modules": [{"name": "libfoo", "sources": ["foo.c", "bar.c"], "env": {"global": {"CFLAGS": ["-DWITH_BAR"]}}}]}]
        sub1 = [{"modules": [{"name": "libfoo_extra", "sources": ["x.c"]}]}]
        lib3 = [{"modules": [{"name": "libfoo", "sources": ["foo.c"]}], "subdirs": ["extra"]}]
        vs = {"laze-project.yml": [[doc]], "vendor/libfoo/laze.yml": [lib1, lib2, lib3], "vendor/libfoo/extra/laze.yml": [sub1]}
        t1 = {"laze-project.yml": 1, "vendor/libfoo/laze.yml": 1}
        t2 = {"laze-project.yml": 1, "vendor/libfoo/laze.yml": 2}
        t3 = {"laze-project.yml": 1, "vendor/libfoo/laze.yml": 3, "vendor/libfoo/extra/laze.yml": 1}
        R = lambda cli, stop=0: dict(op="run", cli=cli, stop=stop, sc={})
        E = lambda t: dict(op="edit", tree=t)
        kind = "symlinked" if symlink else "plain"
        out += [("%s local import: imported file edited" % kind, dict(versions=vs, tree0=t1, ops=[R({}), E(t2), R({})])),
                ("%s local import: imported file edited and reverted" % kind, dict(versions=vs, tree0=t1, ops=[R({}), E(t2), R({}), E(t1), R({})])),
                ("%s local import: imported file gains a subdir" % kind, dict(versions=vs, tree0=t1, ops=[R({}), E(t3), R({})])),
                ("%s local import: edit, killed run, narrower run" % kind, dict(versions=vs, tree0=t1, ops=[R({}), E(t2), R({}, 5), R({"builders": ["b0"]})])),
                ("%s local import: unchanged" % kind, dict(versions=vs, tree0=t1, ops=[R({}), R({"builders": ["b1"]})]))]
        # the lazefile of an import is the first of laze-lib.yml, laze.yml, laze-project.yml that exists
        vs2 = dict(vs); vs2["vendor/libfoo/laze-lib.yml"] = [lib2]; vs2["vendor/libfoo/laze-project.yml"] = [lib1]
        t4 = dict(t1); t4["vendor/libfoo/laze-lib.yml"] = 1
        t5 = {"laze-project.yml": 1, "vendor/libfoo/laze-project.yml": 1}
        t6 = dict(t5); t6["vendor/libfoo/laze.yml"] = 2
        out += [("%s local import: a lazefile of higher precedence appears" % kind, dict(versions=vs2, tree0=t1, ops=[R({}), E(t4), R({})])),
                ("%s local import: a lazefile of higher precedence appears and goes" % kind, dict(versions=vs2, tree0=t1, ops=[R({}), E(t4), R({}), E(t1), R({})])),
                ("%s local import: laze.yml appears next to laze-project.yml" % kind, dict(versions=vs2, tree0=t5, ops=[R({}), E(t6), R({"builders": ["b1"]})]))]
    return out

def write_error_histories():
    """write errors (a full disk, a quota: here a file size limit) are not in the machine: these histories are checked on
    the implementation alone — a run under the limit either fails or leaves the file a run without the limit leaves, and
    the last run of the history equals the same run in an empty build directory"""
    f = base_project()
    vs = {"laze-project.yml": [f["laze-project.yml"]]}; t1 = {"laze-project.yml": 1}
    R = lambda cli, **sc: dict(op="run", cli=cli, stop=0, sc=sc)
    out = []
    for lim in (0, 700, 2048, 4096, 8192):
        for a, b in (({}, {}), ({"builders": ["b0"]}, {}), ({}, {"define": ["CFLAGS+=-Dother"]})):
            out.append(("file size limit %d for the second run" % lim,
                        dict(versions=vs, tree0=t1, ops=[R(a, generate_only=True), R(b, generate_only=True, fsize=lim), R(b, generate_only=True)])))
    return out

# ---------------------------------------------------------------- known findings: witnesses on the implementation
def witness_stat_collision(laze):
    """an edit that keeps a file's length and modification time"""
    f = base_project(); tmp, root = hist.setup_dir()
    try:
        hist.write_version(root, "laze-project.yml", f["laze-project.yml"], 1)
        a = hist.run_step(laze, tmp, root, {}, {"generate_only": True})
        g = json.loads(json.dumps(f["laze-project.yml"])); g[0]["contexts"][0]["rules"][0]["cmd"] = g[0]["contexts"][0]["rules"][0]["cmd"].replace("cc ", "CC ")
        hist.write_version(root, "laze-project.yml", g, 1)          # same length, same mtime
        b = hist.run_step(laze, tmp, root, {}, {"generate_only": True})
        shutil.rmtree(os.path.join(root, "build")); c = hist.run_step(laze, tmp, root, {}, {"generate_only": True})
        return b["cache_hit"] and b["ninja"] != c["ninja"]
    finally: shutil.rmtree(tmp, ignore_errors=True)

def witness_edit_during_run(laze):
    """a file edited after it was parsed and before it was stat'ed (pause hook)"""
    f = base_project(); tmp, root = hist.setup_dir()
    try:
        hist.write_version(root, "laze-project.yml", f["laze-project.yml"], 1)
        flag = os.path.join(tmp, "pause")
        env = hist.e2e.clean_env(tmp); env["LAZE_VERIF_PAUSE"] = "between_parse_and_stat:" + flag
        p = subprocess.Popen([laze, "-C", root, "build", "-g", "-G"], env=env, stdout=subprocess.PIPE, stderr=subprocess.PIPE)
        t0 = time.time()
        while not os.path.exists(flag + ".reached") and time.time() - t0 < 30: time.sleep(0.01)
        g = json.loads(json.dumps(f["laze-project.yml"])); g[0]["contexts"][0]["env"]["CFLAGS"] = ["-Dedited-during-the-run"]
        hist.write_version(root, "laze-project.yml", g, 2)
        open(flag + ".go", "w").close(); p.communicate(timeout=60)
        b = hist.run_step(laze, tmp, root, {}, {"generate_only": True})
        shutil.rmtree(os.path.join(root, "build")); c = hist.run_step(laze, tmp, root, {}, {"generate_only": True})
        return b["cache_hit"] and b["ninja"] != c["ninja"]
    finally: shutil.rmtree(tmp, ignore_errors=True)

KNOWN = {"K08:same-len-same-mtime-edit": witness_stat_collision, "K08:edit-between-parse-and-stat": witness_edit_during_run}

def run(rep, tier, seed, rng):
    core.proof_step(rep, "C08", clean=(tier == "thorough"))
    laze = core.build_impl(); driver = core.build_model()
    n = 160 if tier == "quick" else 2500
    named = directed_histories()
    # local imports without symlink are in the model: these histories are also compared step by step with the machine
    named += [(nm, h) for nm, h in import_histories() if nm.startswith("plain")]
    hs = [h for _, h in named] + [hist.gen_history(rng) for _ in range(n)]
    names = [nm for nm, _ in named] + [None] * n
    with ThreadPoolExecutor(core.NCPU) as ex:
        res = list(ex.map(lambda h: hist.execute(laze, h), hs))
    reqs = [hist.request(h, laze, r[0]) for h, r in zip(hs, res)]
    reps, tables = core.run_model_ev(laze, driver, reqs)
    kinds = Counter(); ndis = 0; nprop = 0; nontriv = set(); lens = Counter(); rejected = 0; hits_checked = 0
    open_known = {k["key"] for k in core.load_known() if k.get("property") == "C08" and k.get("status") == "open"}
    for nm, h, (root, steps, fresh), rp in zip(names, hs, res, reps):
        lens[len(h["ops"])] += 1
        desc = [("run", proj.argv(o["cli"]), o.get("stop", 0), o.get("sc", {}), "binary %d" % o.get("bin", 1)) if o["op"] == "run" else ("edit", o["tree"]) if o["op"] == "edit" else ("cache file truncated", "local" if o["local"] else "global", o["size"]) for o in h["ops"]]
        data = dict(name=nm, history=desc, versions={f: len(v) for f, v in h["versions"].items()}, full=h,
                    impl=[None if s is None else dict(rc=s["rc"], cache_hit=s["cache_hit"], ninja_argv=s["ninja_argv"], tasks=s["tasks"], stderr=s["stderr"][-200:]) for s in steps])
        # the property on the implementation
        pv = hist.property_check(h, steps, fresh)
        bv = hist.binary_check(h, steps)
        if bv:
            nprop += 1
            rep.violation("the cache is accepted after the laze binary changed: " + "; ".join(bv)[:300], data, found_input=True)
        if pv:
            nprop += 1
            rep.violation("after this history the last run differs from the same run in an empty build directory: " + "; ".join(pv)[:600], data, found_input=True)
        if steps[-1] is not None and steps[-1]["cache_hit"] and fresh is not None: hits_checked += 1
        m = hist.parse_reply(rp)
        if m is None:
            rejected += 1
            if rp.split()[:1] in (["panic"], ["fuel"], ["badrequest"]):
                rep.violation("model outcome %s on a history" % rp[:60], data, found_input=False)
            continue
        if m and m[0].get("kind") == "names-not-distinct":
            rep.violation("side condition of C08_hit_is_fresh fails: loaded contexts with equal names", data, found_input=False); m = m[1:]
        for x in m: kinds[x["kind"]] += 1
        dis = hist.compare(h, steps, m)
        if dis and not pv and dis[0][0] < len(h["ops"]) - 1 and steps[dis[0][0]] is not None and steps[dis[0][0]]["cache_hit"]:
            # the first disagreement is at a run the implementation served from the cache, before the end of the history:
            # make that step the last one and ask the property itself (the run against the same run in an empty build directory)
            h2 = dict(h, ops=h["ops"][:dis[0][0] + 1])
            _, steps2, fresh2 = hist.execute(laze, h2)
            pv = ["(history cut after step %d) " % dis[0][0] + x for x in hist.property_check(h2, steps2, fresh2)]
            if pv:
                nprop += 1
                rep.violation("after this history the last run differs from the same run in an empty build directory: " + "; ".join(pv)[:600],
                              dict(data, history=desc[:dis[0][0] + 1], full=h2), found_input=True)
        if dis and not pv and steps[dis[0][0]] is not None and not steps[dis[0][0]]["cache_hit"] and any(x_["kind"] == "G" for x_ in m[:dis[0][0]]):
            # the first disagreement is at a run that did not hit (e.g. a failing run that leaves other files behind than the
            # machine says): continue the history the way that makes such a difference matter — back to the tree and the
            # arguments of the last complete run before it — and ask the property there
            k0 = dis[0][0]; j0 = max(i_ for i_ in range(k0) if m[i_]["kind"] == "G")
            tree_j = dict(h["tree0"])
            for o_ in h["ops"][:j0]:
                if o_["op"] == "edit": tree_j = dict(o_["tree"])
            h2 = dict(h, ops=h["ops"][:k0 + 1] + [dict(op="edit", tree=tree_j), dict(h["ops"][j0], stop=0)])
            _, steps2, fresh2 = hist.execute(laze, h2)
            pv = ["(history continued after step %d with the tree and arguments of step %d) " % (k0, j0) + x for x in hist.property_check(h2, steps2, fresh2)]
            if pv:
                nprop += 1
                rep.violation("after this history the last run differs from the same run in an empty build directory: " + "; ".join(pv)[:600],
                              dict(data, full=h2), found_input=True)
        if dis:
            ndis += 1
            rep.violation("history: implementation and cache machine differ at step %d: %s" % (dis[0][0], "; ".join(d for _, d in dis)[:500]),
                          dict(data, model=[x["kind"] for x in m]), found_input=bool(pv))
        if any(x["kind"] == "H" for x in m) and any(x["kind"] in ("F", "K", "E") for x in m):
            nontriv.add(json.dumps(desc, sort_keys=True, default=str))
    # `imports:` histories: the property on the implementation alone (not modelled)
    imps = import_histories()
    with ThreadPoolExecutor(core.NCPU) as ex:
        ires = list(ex.map(lambda nh: hist.execute(laze, nh[1]), imps))
    nimp = 0
    for (nm, h), (root, steps, fresh) in zip(imps, ires):
        pv = hist.property_check(h, steps, fresh)
        runs = [s_ for s_ in steps if s_ is not None]
        if any(s_["rc"] not in (0, -6) for s_ in runs):
            pv.append("a run of the import history fails: rc=%s %s" % ([s_["rc"] for s_ in runs], runs[-1]["stderr"][-200:]))
        # an edit directly before a complete run must not be served from the cache
        for i, op in enumerate(h["ops"]):
            if op["op"] == "run" and i > 0 and h["ops"][i - 1]["op"] == "edit" and steps[i]["cache_hit"] and h["ops"][i - 1]["tree"] != h["tree0"]:
                pv.append("step %d is served from the cache although an imported build file changed" % i)
        if pv:
            nimp += 1
            rep.violation("imports: " + nm + ": " + "; ".join(pv)[:500],
                          dict(name=nm, full=h, impl=[None if s_ is None else dict(rc=s_["rc"], cache_hit=s_["cache_hit"], stderr=s_["stderr"][-200:]) for s_ in steps]), found_input=True)
    # write errors: implementation level
    wes = write_error_histories()
    with ThreadPoolExecutor(core.NCPU) as ex:
        wres = list(ex.map(lambda nh: hist.execute(laze, nh[1]), wes))
    nwe = 0
    for (nm, h), (root, steps, fresh) in zip(wes, wres):
        pv = hist.property_check(h, steps, fresh)
        lim_step = steps[1]
        if lim_step["rc"] == 0 and fresh is not None and fresh["rc"] == 0 and lim_step["ninja"] != fresh["ninja"]:
            pv.append("the run under the file size limit exits 0 but leaves a ninja file of %d bytes (without the limit: %d)" % (len(lim_step["ninja"] or b""), len(fresh["ninja"] or b"")))
        if any(s_["rc"] not in (0, 1) for s_ in steps if s_ is not None):
            pv.append("unexpected exit status %s" % [s_["rc"] for s_ in steps if s_ is not None])
        if pv:
            nwe += 1
            rep.violation("write error: " + nm + ": " + "; ".join(pv)[:500],
                          dict(name=nm, full=h, impl=[None if s_ is None else dict(rc=s_["rc"], cache_hit=s_["cache_hit"], stderr=s_["stderr"][-200:]) for s_ in steps]), found_input=True)
    rep.cov.update(write_error_histories=len(wes), write_error_violations=nwe)
    # cross-check extraction on a few histories inside Coq
    small = sorted([i for i in range(len(reqs)) if not tables[i]], key=lambda i: len(reqs[i]))[:6]      # (requests that needed no evalexpr answers)
    nvm, bad = core.vm_crosscheck([reqs[i] for i in small], [reps[i] for i in small], n=6)
    for b in bad: rep.violation("extracted model and vm_compute disagree on a history request", dict(detail=str(b)[:400]), found_input=False)
    # open known findings: do the witnesses still reproduce?
    wit = {}
    for key, fn in KNOWN.items():
        try: wit[key] = bool(fn(laze))
        except Exception as e: wit[key] = "error: %s" % e
        if wit[key] is True and key not in open_known:
            rep.violation("a run is served from the cache although the tree differs (%s)" % key, dict(witness=key), found_input=True)
    rep.cov.update(evaluations=sum(1 for h in hs for o in h["ops"] if o["op"] == "run"), distinct_nontrivial=len(nontriv),
                   rule="%d directed histories (one per clause, every fault point x {old arguments, same arguments, edit+revert}) + %d random histories over random projects: "
                        "2-8 operations among run(args from a family of related command lines: sub/superset and reordered --builders/--apps, unknown names, --select/--disable, "
                        "several -D incl. permuted/swapped/equal values, failing -D, --partition), another laze binary from some run on, kill at fault point 1-7, edit (env/source/app added, touch, load-breaking, "
                        "generation-breaking, revert to an earlier version, file removed); each run also with tasks/-G at random. Compared per run: hit/regenerate/fail/killed, exit status, "
                        "ninja argv, executed tasks, ninja file bytes, existence of the cache file. Property check on the implementation: the last run against the same run "
                        "after removing the build directory. non-trivial = a history with a cache hit and at least one failing/killed run or edit" % (len(named), n),
                   histories=len(hs), history_lengths=dict(lens), step_kinds=dict(kinds), model_rejects=rejected, disagreements=ndis,
                   property_violations=nprop, import_histories=len(imps), import_history_violations=nimp, final_hits_compared_with_fresh=hits_checked, vm_crosschecked=nvm, known_finding_witnesses=wit,
                   samples=[dict(history=[("run", proj.argv(o["cli"]), o.get("stop", 0)) if o["op"] == "run" else ("edit", o.get("tree")) for o in hs[len(named)]["ops"]])])
    rep.assumptions += [
        "a file's (len, mtime) determines its content: the harness gives every version of a file its own mtime; an edit that keeps both is the open finding K08:same-len-same-mtime-edit",
        "load() and the stat of the loaded files are atomic w.r.t. edits in the model; in the code an edit between them makes the run write no cache (fix of K08:edit-between-parse-and-stat); the pause-hook witness is run on every check and must not reproduce",
        "`imports:` entries (local with/without symlink; git and command imports need network/processes) are not in the model: %d directed import histories are checked on the implementation alone (last run vs. the same run in an empty build directory; an edited imported file must not be served from the cache)" % len(imps),
        "a kill is SIGABRT at one of seven fault points (hooks); kills inside a single write call are covered by: a truncated bincode cache does not deserialize (not modelled), a partly written ninja file is state NPartial",
        "the 64-bit hash of the -D environment is modelled as equality of the environments",
        "C08_hit_is_fresh: premises same build-dir/root/binary spelling, same -D list, no --partition, --apps narrowing in global mode only; the remaining cases are covered by the correspondence and the implementation-level property check only",
        "a changed laze binary is exercised by re-stamping the 16-byte build uuid at the head of the cache files (the uuid is used for nothing but that comparison); that a new binary gets a new uuid is the build_uuid crate's business",
    ]
