"""Hand-written projects for shapes that random generation reaches rarely. They run first in every
end-to-end check (like the upstream examples). Each returns (files, cli)."""

RULES = [{"name": "CC", "in": "c", "out": "o", "cmd": "cc ${CFLAGS} ${X} -c ${in} -o ${out}"},
         {"name": "LINK", "in": "o", "cmd": "ld ${LIBS} ${in} -o ${out} # ${modules}"}]

def base(modules, apps, contexts=None, builders=None, **doc_extra):
    ctx = [{"name": "default", "rules": RULES, "env": {"bindir": "${build-dir}/${builder}/${app}"}}] + (contexts or [])
    return {"laze-project.yml": [dict({"contexts": ctx, "builders": builders or [{"name": "b0"}, {"name": "b1", "env": {"X": "bx"}}],
                                      "modules": modules, "apps": apps}, **doc_extra)]}

def cases_portable():
    """the cases whose files do not mention the absolute scratch directory: for checks that compare two runs made
    in different scratch directories with each other"""
    import json
    return [(f, c) for f, c in cases() if "@ABSROOT@" not in json.dumps(f)]

def cases():
    out = []
    # 1/2: conditional imports whose condition module is absent / present
    for cond_dep in ("?D", "D"):
        for select_x in (False, True):
            mods = [{"name": "D", "sources": ["D.c"], "env": {"export": {"X": "from-D", "CFLAGS": ["-DD"]}}},
                    {"name": "Xc", "sources": ["Xc.c"]},
                    {"name": "M", "sources": ["M.c"], "depends": [{"Xc": [cond_dep]}]}]
            apps = [{"name": "app", "sources": ["main.c"], "depends": ["M", "D"] + (["Xc"] if select_x else [])}]
            out.append((base(mods, apps), {}))
    # 3: provides_unique vs conflicts on the feature, both orders
    for order in (["U", "C"], ["C", "U"], ["?U", "C"], ["U", "?C"]):
        mods = [{"name": "U", "provides_unique": ["feat"], "sources": ["U.c"]},
                {"name": "C", "conflicts": ["feat"], "sources": ["C.c"]},
                {"name": "V", "provides": ["feat"], "sources": ["V.c"]}]
        out.append((base(mods, [{"name": "app", "sources": ["main.c"], "selects": order},
                                {"name": "app2", "sources": ["main.c"], "selects": ["feat"] + order}]), {}))
    # 4: optional subtree that registers conflicts / if-then entries and then fails deep
    mods = [{"name": "opt", "conflicts": ["late"], "provides_unique": ["feat"], "selects": ["inner"]},
            {"name": "inner", "selects": [{"trigger": ["extra"]}, "missing"]},
            {"name": "late", "sources": ["late.c"]}, {"name": "trigger"}, {"name": "extra", "sources": ["extra.c"]},
            {"name": "prov2", "provides": ["feat"], "sources": ["prov2.c"]}]
    out.append((base(mods, [{"name": "app", "sources": ["main.c"], "selects": ["?opt", "late", "trigger", "feat"]}]), {}))
    # 5: hard dependency on a provided name that is disabled, no provider selected
    mods = [{"name": "console", "selects": ["uart"], "sources": ["console.c"]},
            {"name": "uart_hw", "provides": ["uart"], "sources": ["hw.c"]}, {"name": "uart_sw", "provides": ["uart"], "sources": ["sw.c"]}]
    for cli in ({}, {"disable": ["uart"]}, {"disable": ["uart_hw"]}, {"select": ["uart_sw"], "disable": ["uart"]}):
        out.append((base(mods, [{"name": "app", "sources": ["main.c"], "selects": ["console"]}]), cli))
    # 6: defaults and module both declare optional sources under one guard
    mods = [{"name": "G"}, {"name": "lib", "sources": ["lib.c", {"G": ["lib_g.c"], "H": ["lib_h.c"]}]}, {"name": "H"}]
    out.append((base(mods, [{"name": "app", "sources": ["main.c"], "selects": ["lib", "G"]}],
                     defaults={"module": {"sources": ["common.c", {"G": ["common_g.c"]}]}}), {}))
    # 7: list / single / list for one variable across context, module global, app global; -D on top
    mods = [{"name": "lib", "sources": ["lib.c"], "env": {"global": {"X": "libval", "LIBS": ["-llib"]}}}]
    apps = [{"name": "app", "sources": ["main.c"], "selects": ["lib"], "env": {"global": {"X": ["appval"], "LIBS": ["-lapp"]}}}]
    for cli in ({}, {"define": ["X+=cli"]}, {"define": ["X=cli", "LIBS+=cli"]}):
        out.append((base(mods, apps, contexts=[{"name": "c0", "env": {"X": ["ctx"], "LIBS": "single"}}],
                         builders=[{"name": "b0", "parent": "c0"}, {"name": "b1", "parent": "c0", "env": {"X": ["b1"]}}]), cli))
    # 8/10: build deps: a generated header used by one app only, a global build dep, both
    mods = [{"name": "gen", "build": {"cmd": ["gen > ${out}"], "out": ["gen/${builder}/${app}/gen.h"]}, "is_build_dep": True},
            {"name": "glob", "build": {"cmd": ["cfg > ${out}"], "out": ["gen/${builder}/${app}/config.h"]}, "is_global_build_dep": True},
            {"name": "lib", "sources": ["lib.c"], "uses": ["gen"]}, {"name": "util", "sources": ["util.c"]}]
    apps = [{"name": "a1", "sources": ["main.c"], "depends": ["lib", "gen"]}, {"name": "a2", "sources": ["main.c"], "depends": ["lib"]},
            {"name": "a3", "sources": ["main.c"], "depends": ["lib", "gen", "glob", "util"]}, {"name": "a4", "sources": ["main.c"], "depends": ["util", "glob"]}]
    out.append((base(mods, apps), {}))
    # 9: non-shareable rule, two apps sharing a source, bindir without ${app}
    ctx_rules = RULES + [{"name": "GEN", "in": "tbl", "out": "o", "cmd": "gen ${in} ${out}", "shareable": False}]
    f = {"laze-project.yml": [{"contexts": [{"name": "default", "rules": ctx_rules, "env": {"bindir": "${build-dir}/${builder}"}}],
                               "builders": [{"name": "host"}], "modules": [{"name": "tab", "sources": ["table.tbl"]}],
                               "apps": [{"name": "app1", "sources": ["m1.c"], "selects": ["tab"]}, {"name": "app2", "sources": ["m2.c"], "selects": ["tab"]}]}]}
    out.append((f, {}))
    # 11: defaults inherited through subdirs when the child has defaults for the other kind only
    f = {"laze-project.yml": [{"contexts": [{"name": "default", "rules": RULES, "env": {"bindir": "${build-dir}/${builder}/${app}"}}],
                               "builders": [{"name": "b0"}], "subdirs": ["sub"],
                               "defaults": {"module": {"selects": ["basem"], "uses": ["basem"], "env": {"local": {"CFLAGS": ["-DFROM_DEFAULTS"]}}, "sources": ["common.c"]},
                                            "app": {"selects": ["basem"]}},
                               "modules": [{"name": "basem", "sources": ["base.c"]}]}],
         "sub/laze.yml": [{"defaults": {"app": {"env": {"global": {"X": "subapp"}}}}, "subdirs": ["deep"],
                           "modules": [{"name": "helper", "sources": ["helper.c"]}], "apps": [{"name": "app", "sources": ["main.c"], "selects": ["helper", "deepm"]}]}],
         "sub/deep/laze.yml": [{"modules": [{"name": "deepm", "sources": ["deep.c"]}]}]}
    out.append((f, {}))
    # 12: var_options inheritance parent -> child, child defining its own
    ctxs = [{"name": "c0", "var_options": {"CFLAGS": {"prefix": "-I", "joiner": ","}}, "env": {"CFLAGS": ["", "a", "", "b"]}},
            {"name": "c1", "parent": "c0", "var_options": {"LIBS": {"prefix": "-l"}}, "env": {"LIBS": ["m", "c"]}}]
    out.append((base([], [{"name": "app", "sources": ["main.c"]}], contexts=ctxs,
                     builders=[{"name": "b0", "parent": "c0"}, {"name": "b1", "parent": "c1"},
                               {"name": "b2", "parent": "c0", "var_options": {"CFLAGS": {"from": "LIBS", "prefix": "-L"}}, "env": {"LIBS": ["x"]}}]), {}))
    # 13: --select of a module the app already lists later, where order matters (mutual conflict)
    mods = [{"name": "impl_a", "conflicts": ["impl_b"], "sources": ["a.c"], "env": {"global": {"X": "flavor_a"}}},
            {"name": "impl_b", "conflicts": ["impl_a"], "sources": ["b.c"], "env": {"global": {"X": "flavor_b"}}}]
    apps = [{"name": "app", "sources": ["main.c"], "selects": ["?impl_a", "?impl_b"]}]
    for cli in ({"select": ["?impl_b"]}, {"select": ["impl_b"]}, {"select": ["?impl_b", "?impl_a"]}, {"disable": ["impl_a"]}, {"define": ["X+=cli", "X+=cli2"]}):
        out.append((base(mods, apps), cli))
    # 14-17: download: (the generator does not fetch anything: tag files, phony statements, aliases)
    DL = [{"name": "GIT_DOWNLOAD", "cmd": "D=$$(dirname ${out}); git clone ${url} -b ${commit} $$D && touch ${out}"},
          {"name": "GIT_PATCH", "cmd": "D=$$(dirname ${out}); git -C $$D am ${in} && touch ${out}"}]
    def dlbase(mods, apps, rules=None, **kw):
        f = base(mods, apps, **kw)
        f["laze-project.yml"][0]["contexts"][0]["rules"] = RULES + (DL if rules is None else rules)
        return f
    git = {"git": {"url": "https://example.org/libfoo.git", "commit": "0123abcd"}}
    # a downloaded library needing a per-builder generated header (build dep), two builders, two apps
    mods = [{"name": "libconfig", "is_build_dep": True, "build": {"cmd": ["gen > ${out}"], "out": ["gen/${builder}/libconfig.h"]}},
            {"name": "libfoo", "depends": ["libconfig"], "download": git, "sources": ["foo.c", "bar.c"]},
            {"name": "foo_glue", "srcdir": "${build-dir}/dl/./libfoo/glue", "sources": ["glue.c"], "depends": ["libfoo"]},
            {"name": "plain", "sources": ["plain.c"]}]
    apps = [{"name": "a1", "sources": ["main.c"], "depends": ["libfoo", "foo_glue"]}, {"name": "a2", "sources": ["m2.c"], "depends": ["libfoo", "plain"]}]
    out.append((dlbase(mods, apps), {}))
    # patches, dldir, a global build dep next to a download, an app that downloads its own sources
    mods = [{"name": "cfg", "is_global_build_dep": True, "build": {"cmd": ["cfg > ${out}"], "out": ["gen/config.h"]}},
            {"name": "vendor", "download": dict(git, patches=["0001-fix.patch", "0002-more.patch"], dldir="vendor-src"), "sources": ["v.c"]},
            {"name": "user", "sources": ["user.c"], "uses": ["vendor"]}]
    apps = [{"name": "app", "sources": ["main.c"], "depends": ["vendor", "user", "cfg"]},
            {"name": "dlapp", "download": git, "sources": ["foo_downloaded.c"]}]
    out.append((dlbase(mods, apps), {}))
    # no GIT_DOWNLOAD rule; no GIT_PATCH rule; unsupported source kind
    out.append((dlbase([{"name": "v", "download": git, "sources": ["v.c"]}], [{"name": "app", "sources": ["main.c"], "depends": ["v"]}], rules=[]), {}))
    out.append((dlbase([{"name": "v", "download": dict(git, patches=["p.patch"]), "sources": ["v.c"]}], [{"name": "app", "sources": ["main.c"], "depends": ["v"]}], rules=DL[:1]), {}))
    out.append((dlbase([{"name": "v", "download": {"git": {"url": "u", "branch": "main"}}, "sources": ["v.c"]}], [{"name": "app", "sources": ["main.c"], "depends": ["v"]}]), {}))
    # 19: allow/block lists from defaults: are extended by the app's own lists
    ctxs = [{"name": "arm"}, {"name": "riscv"}, {"name": "host"}]
    blds = [{"name": "board-a", "parent": "arm"}, {"name": "board-c", "parent": "riscv"}, {"name": "native", "parent": "host"}]
    for dflt, own in (({"blocklist": ["riscv"]}, {"blocklist": ["host"]}), ({"allowlist": ["arm"]}, {"allowlist": ["host"]}),
                      ({"blocklist": ["riscv"], "allowlist": ["arm"]}, {"blocklist": ["board-a"], "allowlist": ["riscv"]}),
                      ({"blocklist": ["riscv"]}, {"allowlist": ["board-c"]})):
        out.append((base([], [dict({"name": "app-big", "sources": ["big.c"]}, **own), {"name": "app-plain", "sources": ["p.c"]}],
                         contexts=ctxs, builders=blds, defaults={"app": dflt, "module": dflt}), {}))
    # 20: var_options set on a context without any env (a pure "style" context) reach its descendants
    f = {"laze-project.yml": [{"contexts": [{"name": "default", "rules": RULES},
                                            {"name": "style", "var_options": {"CFLAGS": {"prefix": "-D", "joiner": " "}, "LIBS": {"start": "[", "end": "]", "joiner": ":", "prefix": "-l"}}},
                                            {"name": "style2", "parent": "style"}],
                               "builders": [{"name": "b0", "parent": "style", "env": {"bindir": "${build-dir}/${builder}/${app}", "CFLAGS": ["FOO", "", "BAR=1"], "LIBS": ["m", "c"]}},
                                            {"name": "b1", "parent": "style2", "env": {"bindir": "${build-dir}/${builder}/${app}", "CFLAGS": ["X"], "LIBS": ["z"]}},
                                            {"name": "b2", "parent": "style", "var_options": {"CFLAGS": {"suffix": ";"}}, "env": {"bindir": "${build-dir}/${builder}/${app}", "CFLAGS": ["own"], "LIBS": ["q", "r"]}}],
                               "apps": [{"name": "app", "sources": ["main.c"]}]}]}
    out.append((f, {}))
    # 21: a conditional import whose condition is only a PROVIDED name (no module of that name in the build):
    #     the condition is about module names, so the import is not active
    for cond_dep in ("?D", "D"):
        mods = [{"name": "D", "sources": ["D.c"], "env": {"export": {"X": "from-D", "CFLAGS": ["-DD"]}}},
                {"name": "P", "provides": ["feat"], "sources": ["P.c"]},
                {"name": "M", "sources": ["M.c"], "depends": [{"feat": [cond_dep]}]}]
        out.append((base(mods, [{"name": "app", "sources": ["main.c"], "depends": ["M", "P", "D"]}]), {}))
    # 22: a downloaded module with a custom build step: users wait for the tag file AND the build outputs
    mods = [{"name": "thirdparty", "download": git, "build": {"cmd": ["make -C ${srcdir} > ${out}"], "out": ["${build-dir}/tp/libtp.a"]}, "is_build_dep": True},
            {"name": "middle", "sources": ["middle.c"], "depends": ["thirdparty"]},
            {"name": "genver", "is_build_dep": True, "build": {"cmd": ["ver > ${out}"], "out": ["gen/version.h"]}}]
    out.append((dlbase(mods, [{"name": "app", "sources": ["main.c"], "depends": ["middle", "genver"]}]), {}))
    # 23: contexts declared before their parents (the default context last): env and var_options still come down the chain
    f = {"laze-project.yml": [{"contexts": [{"name": "board", "parent": "family", "env": {"CFLAGS": ["b"], "LIBS": ["lb"]}},
                                            {"name": "soc", "parent": "board", "env": {"CFLAGS": ["s"]}},
                                            {"name": "family", "env": {"CFLAGS": ["f"], "X": "from-family"}, "var_options": {"LIBS": {"prefix": "-l"}}},
                                            {"name": "default", "rules": RULES, "env": {"bindir": "${build-dir}/${builder}/${app}", "CFLAGS": ["d"], "ROOTVAR": "from_default", "X": "${ROOTVAR}"}}],
                               "builders": [{"name": "b0", "parent": "soc", "env": {"CFLAGS": ["${ROOTVAR}"]}}, {"name": "b1", "parent": "family"}],
                               "apps": [{"name": "app", "sources": ["main.c"]}]}]}
    out.append((f, {}))
    # 24: a module whose sources are ALL optional; a conditional SELECT (map form under selects:) selects, it does not import
    mods = [{"name": "netif", "sources": ["netif.c"]}, {"name": "usb", "sources": ["usb.c"]},
            {"name": "glue", "sources": [{"netif": ["glue_netif.c"], "usb": ["glue_usb.c"]}]}]
    out.append((base(mods, [{"name": "app", "sources": ["main.c"], "selects": ["glue", "netif"]}]), {}))
    for cond_dep in ("?D", "D"):
        mods = [{"name": "D", "sources": ["D.c"], "env": {"export": {"X": "from-D", "CFLAGS": ["-DD"]}}},
                {"name": "Xc", "sources": ["Xc.c"]},
                {"name": "M", "sources": ["M.c"], "selects": [{"Xc": [cond_dep]}]}]
        out.append((base(mods, [{"name": "app", "sources": ["main.c"], "selects": ["M", "Xc"]}]), {}))
    # 25: a downloaded module with optional sources that only some apps activate (one phony statement per source)
    mods = [{"name": "spi", "sources": ["spi.c"]},
            {"name": "vendorlib", "download": git, "sources": ["core.c", "util.c", {"spi": ["drv_spi.c"]}]}]
    apps = [{"name": "blinky", "sources": ["blinky.c"], "depends": ["vendorlib"]}, {"name": "sensor", "sources": ["sensor.c"], "depends": ["vendorlib", "spi"]}]
    out.append((dlbase(mods, apps), {}))
    # 26: download directories where one name is a string prefix of the other (nrfx / nrfx_hal): containment is by path component
    mods = [{"name": "nrfx", "download": git, "sources": ["nrfx.c"]}, {"name": "nrfx_hal", "download": git, "sources": ["hal.c"]},
            {"name": "hal_uart", "srcdir": "${build-dir}/dl/./nrfx_hal/drivers", "sources": ["uart.c"], "depends": ["nrfx_hal"]}]
    apps = [{"name": "logger", "sources": ["logger.c"], "depends": ["hal_uart"]},
            {"name": "radio", "sources": ["radio.c"], "depends": ["nrfx", "hal_uart"]},
            {"name": "radio2", "sources": ["radio2.c"], "depends": ["nrfx", "nrfx_hal", "hal_uart"]}]
    out.append((dlbase(mods, apps), {}))
    # 27: a builder's context overrides the compile rule only to add always: true; the other builder uses the plain rule
    cca = dict(RULES[0], always=True)
    out.append((base([{"name": "lib", "sources": ["lib.c"]}], [{"name": "a1", "sources": ["main.c"], "selects": ["lib"]}, {"name": "a2", "sources": ["m2.c"], "selects": ["lib"]}],
                     contexts=[{"name": "c0", "rules": [cca]}], builders=[{"name": "b0", "parent": "c0"}, {"name": "b1"}]), {}))
    # 28: rule/task export: entries: a plain name exports the variable's recursively expanded value; escapes stay literal
    rules = [dict(RULES[0], export=["TOOLCHAIN_DIR", "LINKER_SCRIPT", {"EXPR": "$(1+2)-${SDK_ROOT}"}]), RULES[1]]
    f = base([], [{"name": "app", "sources": ["main.c"]}])
    f["laze-project.yml"][0]["contexts"][0]["rules"] = rules
    f["laze-project.yml"][0]["contexts"][0]["env"].update({"SDK_ROOT": "/opt/sdk", "TOOLCHAIN_DIR": "${SDK_ROOT}/toolchain", "LINKER_SCRIPT": "\\${HOME}/ld/${builder}.ld"})
    f["laze-project.yml"][0]["contexts"][0]["tasks"] = {"show": {"cmd": ["echo ${TOOLCHAIN_DIR}"], "export": ["TOOLCHAIN_DIR", {"LD": "${LINKER_SCRIPT}"}]}}
    out.append((f, {}))
    # 29: a module whose srcdir lies inside a top-level module's download directory, written without the "./" that the
    #     stored directory carries (build/dl/./ext): containment is by path component
    mods = [{"name": "ext", "download": git, "sources": ["ext.c"]},
            {"name": "ext_core", "srcdir": "${build-dir}/dl/ext/src/core", "sources": ["core.c", "sched.c"], "depends": ["ext"]},
            {"name": "ext_same", "srcdir": "build/dl/ext", "sources": ["same.c"], "depends": ["ext"]}]
    out.append((dlbase(mods, [{"name": "app", "sources": ["main.c"], "depends": ["ext_core", "ext_same"]}]), {}))
    # 30: a chain of four contexts declared child-first, only the top one declares var_options; the
    #     middle ones have none of their own when their children are looked at in file order
    f = {"laze-project.yml": [{"contexts": [{"name": "soc", "parent": "board", "env": {"CFLAGS": ["s"], "LIBS": ["ls"]}},
                                            {"name": "board", "parent": "family", "env": {"CFLAGS": ["b"], "LIBS": ["lb"]}},
                                            {"name": "family", "parent": "style", "env": {"CFLAGS": ["f"]}},
                                            {"name": "style", "var_options": {"CFLAGS": {"prefix": "-D", "joiner": ","}, "LIBS": {"prefix": "-l", "start": "<", "end": ">"}}},
                                            {"name": "default", "rules": RULES, "env": {"bindir": "${build-dir}/${builder}/${app}", "CFLAGS": ["d"]}}],
                               "builders": [{"name": "b0", "parent": "soc"}, {"name": "b1", "parent": "board", "var_options": {"LIBS": {"joiner": ":"}}}],
                               "apps": [{"name": "app", "sources": ["main.c"]}]}]}
    out.append((f, {}))
    # 32: two modules carved out of one checkout (same download, same dldir); one `uses` the other: where both are
    #     selected the user's order-only list names the tag file twice, elsewhere once — two different statements,
    #     hence two objects
    sdk = {"git": {"url": "https://example.org/sdk.git", "commit": "feedc0de"}, "dldir": "sdk"}
    mods = [{"name": "sdk_core", "download": sdk, "sources": ["core.c"]},
            {"name": "sdk_net", "download": sdk, "sources": ["net.c"], "uses": ["sdk_core"]}]
    out.append((dlbase(mods, [{"name": "app_full", "sources": ["main.c"], "depends": ["sdk_core", "sdk_net"]},
                              {"name": "app_net", "sources": ["main.c"], "depends": ["sdk_net"]}]), {}))
    # 33: the context of an app comes from `defaults: app: context:`; builders outside that context refuse it
    f = base([], [{"name": "blinky", "sources": ["main.c"]}, {"name": "armtest", "sources": ["main.c"], "allowlist": ["board", "native"]},
                  {"name": "tool", "sources": ["main.c"], "context": "default"}],
             contexts=[{"name": "hw", "parent": "default"}, {"name": "sim", "parent": "default"}],
             builders=[{"name": "board", "parent": "hw"}, {"name": "devkit", "parent": "hw"}, {"name": "native", "parent": "sim"}],
             defaults={"app": {"context": "hw", "blocklist": ["devkit"]}, "module": {"context": "hw"}})
    f["laze-project.yml"][0]["modules"] = [{"name": "hwlib", "sources": ["hw.c"]}, {"name": "anylib", "context": "default", "sources": ["any.c"]}]
    f["laze-project.yml"][0]["apps"][0]["depends"] = ["hwlib", "anylib"]
    out.append((f, {}))
    # 34: three and four providers of a feature in the default context; a nearer context shadows the first of
    #     them with a module that provides nothing: the remaining providers keep their definition order
    mods = [{"name": "console_uart", "provides": ["console"], "sources": ["cu.c"]}, {"name": "console_rtt", "provides": ["console"], "sources": ["cr.c"]},
            {"name": "console_usb", "provides": ["console"], "sources": ["cb.c"]}, {"name": "console_net", "provides": ["console"], "sources": ["cn.c"]},
            {"name": "stdio_uart", "provides_unique": ["stdio"], "sources": ["su.c"]}, {"name": "stdio_rtt", "provides_unique": ["stdio"], "sources": ["sr.c"]},
            {"name": "stdio_semi", "provides_unique": ["stdio"], "sources": ["ss.c"]},
            {"name": "console_uart", "context": "board", "sources": ["bu.c"]}, {"name": "stdio_uart", "context": "board", "sources": ["bs.c"]},
            {"name": "console_rtt", "context": "other", "sources": ["or.c"]}]
    out.append((base(mods, [{"name": "app_console", "sources": ["main.c"], "selects": ["console"]},
                            {"name": "app_stdio", "sources": ["main.c"], "selects": ["stdio"]},
                            {"name": "app_opt", "sources": ["main.c"], "selects": ["?stdio", "?console"]}],
                     builders=[{"name": "host"}, {"name": "board"}, {"name": "other"}]), {}))
    # 35: escapes survive exactly one un-escaping also inside rule `export:` values (inline and taken from the env),
    #     and an expression that reaches a task command through a variable's value is evaluated
    rules = [{"name": "CC", "in": "c", "out": "o", "cmd": "wrapper ${CC} ${CFLAGS} -c ${in} -o ${out}",
              "export": [{"HINT": "set \\${CC} to override"}, {"MODE": "mode-\\${CC}-${X}"}, "NOTE", {"SIZE": "$(${KB} * 2)"}]},
             {"name": "LINK", "in": "o", "cmd": "ld ${in} -o ${out} # ${NOTE}", "export": [{"LHINT": "\\${CC}"}]}]
    ctx = [{"name": "default", "rules": rules,
            "env": {"bindir": "${build-dir}/${builder}/${app}", "CC": "gcc", "X": "x", "KB": "256", "NOTE": "see \\${CC} and ${X}",
                    "FLASH_BYTES": "$(${KB} * 1024)", "MSG": "size=${FLASH_BYTES}"},
            "tasks": {"size": {"cmd": ["echo ${MSG}", "echo ${FLASH_BYTES} \\${CC}"], "build": False, "export": [{"TOTAL": "${FLASH_BYTES}"}, "NOTE"]},
                      "plain": {"cmd": ["echo $(1 + 2) ${KB}"], "build": False}}}]
    out.append(({"laze-project.yml": [{"contexts": ctx, "builders": [{"name": "b0"}, {"name": "b1", "env": {"KB": "512"}}],
                                       "apps": [{"name": "app", "sources": ["main.c"]}]}]}, {}))
    # 36: allow/block lists and the context in `defaults: app:` reach apps two files down, through a file whose
    #     defaults: section only has `module:` (and one whose defaults only have `app:`)
    f = {"laze-project.yml": [{"contexts": [{"name": "default", "rules": RULES, "env": {"bindir": "${build-dir}/${builder}/${app}"}},
                                            {"name": "sim", "parent": "default"}, {"name": "hw", "parent": "default"}],
                               "builders": [{"name": "native", "parent": "sim"}, {"name": "board", "parent": "hw"}, {"name": "b2"}],
                               "defaults": {"app": {"blocklist": ["sim"], "sources": ["common.c"]}, "module": {"env": {"local": {"CFLAGS": ["-Wall"]}}}},
                               "subdirs": ["apps", "libs"]}],
         "apps/laze.yml": [{"defaults": {"module": {"sources": ["m_common.c"]}}, "apps": [{"name": "shell", "sources": ["shell.c"]}], "subdirs": ["extra"]}],
         "apps/extra/laze.yml": [{"apps": [{"name": "extra", "sources": ["extra.c"], "allowlist": ["native"]}], "modules": [{"name": "extra_mod", "sources": ["em.c"]}]}],
         "libs/laze.yml": [{"defaults": {"app": {"allowlist": ["hw"]}}, "modules": [{"name": "helper", "sources": ["helper.c"]}],
                            "apps": [{"name": "libtest", "sources": ["lt.c"], "depends": ["helper"]}], "subdirs": ["deep"]}],
         "libs/deep/laze.yml": [{"modules": [{"name": "deepmod", "sources": ["deep.c"]}], "apps": [{"name": "deeptest", "sources": ["dt.c"], "depends": ["deepmod"]}]}]}
    out.append((f, {}))
    # 37: '-name' removes the inherited hard, optional and conditional entry alike (and itself)
    f = base([{"name": "logging", "sources": ["log.c"], "env": {"export": {"CFLAGS": ["-DWITH_LOGGING"]}}}, {"name": "tracing", "sources": ["trace.c"]},
              {"name": "debug", "sources": ["debug.c"]}, {"name": "core", "sources": ["core.c"]},
              {"name": "quiet", "sources": ["quiet.c"], "depends": ["-logging", "-tracing"]},
              {"name": "half", "sources": ["half.c"], "depends": ["-tracing", "extra"], "uses": ["-core"]},
              {"name": "loud", "sources": ["loud.c"]}, {"name": "extra", "sources": ["extra.c"], "depends": []}],
             [{"name": "app", "sources": ["main.c"], "depends": ["quiet", "half", "loud", "debug"]},
              {"name": "app2", "sources": ["main.c"], "depends": ["quiet"], "selects": ["-core"]}],
             defaults={"module": {"depends": ["?logging", {"debug": ["tracing"]}], "uses": ["core"]}, "app": {"selects": ["core"]}})
    out.append((f, {}))
    # 38: a name that is both a selected module and provided by other selected modules (a download and a
    #     generated-file module): users of the name import the module AND its providers (tag file, outs alias, exports)
    mods = [{"name": "log", "sources": ["log.c"]},
            {"name": "log_rtt", "download": git, "provides": ["log"], "sources": ["rtt.c"], "env": {"export": {"CFLAGS": ["-DLOG_RTT"]}}},
            {"name": "log_strings", "provides": ["log"], "is_build_dep": True, "build": {"cmd": ["gen > ${out}"], "out": ["gen/log_strings.h"]},
             "env": {"export": {"CFLAGS": ["-DLOG_STRINGS"]}}},
            {"name": "sensor", "sources": ["sensor.c"], "depends": ["log"]},
            {"name": "quiet_sensor", "sources": ["qs.c"], "uses": ["log"]}]
    out.append((dlbase(mods, [{"name": "app", "sources": ["main.c"], "depends": ["log", "sensor"]},
                              {"name": "app2", "sources": ["main.c"], "depends": ["quiet_sensor", "log_rtt"]}]), {}))
    # 39: -D VAR+=value appends ONE element, whatever blanks the value has; visible through var_options and in the text
    f = base([], [{"name": "app", "sources": ["main.c"], "env": {"global": {"defines": ["APP"]}}}],
             builders=[{"name": "b0", "var_options": {"defines": {"prefix": "-D"}}, "env": {"defines": ["B0"]}}, {"name": "b1"}])
    f["laze-project.yml"][0]["contexts"][0]["rules"] = [{"name": "CC", "in": "c", "out": "o", "cmd": "cc ${defines} ${CFLAGS} -c ${in} -o ${out}"}, RULES[1]]
    out.append((f, {"define": ["defines+=GREETING=\"hello world\"", "CFLAGS+=two  blanks", "CFLAGS+= lead"]}))
    # 40: a module inside another module's download directory that does NOT depend on the downloader and is
    #     visited before it (both are in the build): its sources are still declared as created by the download
    mods = [{"name": "early", "srcdir": "${build-dir}/dl/./late_dl/sub", "sources": ["early.c"]},
            {"name": "late_dl", "download": git, "sources": ["late.c"]},
            {"name": "other", "sources": ["other.c"]}]
    out.append((dlbase(mods, [{"name": "app", "sources": ["main.c"], "selects": ["early", "other", "late_dl"]},       # selects do not import: no build-dep edge
                              {"name": "app_without", "sources": ["main.c"], "depends": ["other", "late_dl"]}]), {}))
    # 31: a builder that both `disables:` a module and `provides_unique:` a feature; other providers of
    #     the feature (and the disabled module) are reached by apps: unique means the others are refused
    mods = [{"name": "stdio_uart", "provides": ["stdio"], "sources": ["uart.c"]},
            {"name": "stdio_rtt", "provides_unique": ["stdio"], "sources": ["rtt.c"]},
            {"name": "heavy", "sources": ["heavy.c"]}]
    blds = [{"name": "semihost", "disables": ["heavy"], "provides_unique": ["stdio"]},
            {"name": "plain", "disables": ["heavy"]},
            {"name": "both", "provides": ["stdio"], "provides_unique": ["console"], "disables": ["stdio_rtt"]}]
    apps = [{"name": "hello", "sources": ["main.c"], "depends": ["?stdio_uart"]},
            {"name": "echo", "sources": ["main.c"], "depends": ["stdio_uart"]},
            {"name": "any", "sources": ["main.c"], "depends": ["stdio", "?heavy"]},
            {"name": "rtt", "sources": ["main.c"], "depends": ["stdio_rtt"]}]
    out.append((base(mods, apps, builders=blds), {}))
    # 41: two global build deps that two apps reach in opposite order; a module shared by both apps: its
    #     statements list the order-only deps sorted, so both builds emit the SAME statement for the shared object
    mods = [{"name": "g1", "is_global_build_dep": True, "build": {"cmd": ["gen1 > ${out}"], "out": ["g1.h"]}},
            {"name": "g2", "is_global_build_dep": True, "build": {"cmd": ["gen2 > ${out}"], "out": ["g2.h"]}},
            {"name": "lib", "sources": ["lib.c"]}]
    out.append((base(mods, [{"name": "app1", "sources": ["main.c"], "depends": ["g1", "g2", "lib"]},
                            {"name": "app2", "sources": ["main.c"], "depends": ["g2", "g1", "lib"]}]), {}))
    # 42: an escaped reference in a custom build command stays literal although the name is defined in the module's env
    mods = [{"name": "gen", "build": {"cmd": ["mk --prefix=\\${PREFIX} --real=${PREFIX} \\${out} > ${out}"], "out": ["gen.h"], "gcc_deps": "${out}.d"},
             "env": {"local": {"PREFIX": "/opt/local"}, "global": {"PREFIX": "/opt/global"}}, "is_build_dep": True}]
    out.append((base(mods, [{"name": "app", "sources": ["main.c"], "depends": ["gen"]}]), {}))
    # 43: a document that declares nothing before the document whose defaults are handed down through subdirs:
    f = {"laze-project.yml": [{"contexts": [{"name": "default", "rules": RULES, "env": {"bindir": "${build-dir}/${builder}/${app}"}}], "builders": [{"name": "b0"}]},
                              {},
                              {"defaults": {"module": {"env": {"global": {"CFLAGS": ["-DFROM_MODULE_DEFAULTS"]}}}, "app": {"depends": ["base"], "env": {"global": {"CFLAGS": ["-DFROM_APP_DEFAULTS"]}}}},
                               "subdirs": ["lib", "app"]},
                              {},
                              {"defaults": {"module": {"env": {"global": {"CFLAGS": ["-DOTHER"]}}}}, "subdirs": ["other"]}],
         "lib/laze.yml": [{"modules": [{"name": "base", "sources": ["base.c"]}]}],
         "app/laze.yml": [{}, {"apps": [{"name": "hello", "sources": ["hello.c"]}]}],
         "other/laze.yml": [{"modules": [{"name": "othermod", "sources": ["o.c"]}], "apps": [{"name": "second", "sources": ["s.c"], "depends": ["othermod"]}]}]}
    out.append((f, {}))
    # 44: the compile rule uses a response file whose content mentions variables; modules with the same command
    #     line but different values of these variables: one rule (the content is not expanded), and editing one
    #     module's local variable leaves the others' statements alone
    mods = [{"name": "liba", "sources": ["liba.c"], "env": {"local": {"INCLUDES": ["-Ia"]}}},
            {"name": "libb", "sources": ["libb.c"], "env": {"local": {"INCLUDES": ["-Ib"]}}}]
    f = base(mods, [{"name": "app", "sources": ["main.c"], "depends": ["liba", "libb"], "env": {"local": {"INCLUDES": ["-Iapp"]}}}])
    f["laze-project.yml"][0]["contexts"][0]["rules"] = [{"name": "CC", "in": "c", "out": "o", "cmd": "cc @${out}.rsp -c ${in} -o ${out}",
                                                         "rspfile": "${out}.rsp", "rspfile_content": "${CFLAGS} ${X} ${INCLUDES}"}, RULES[1]]
    out.append((f, {}))
    # 45: an app name declared for two contexts of one chain in two directories; local mode from the directory of
    #     the shadowed declaration: the builder below the nearer context still does not get the farther app
    f = {"laze-project.yml": [{"contexts": [{"name": "default", "rules": RULES, "env": {"bindir": "${build-dir}/${builder}/${app}"}}, {"name": "special", "parent": "default"}],
                               "builders": [{"name": "plain"}, {"name": "sp", "parent": "special"}], "subdirs": ["generic", "special"]}],
         "generic/laze.yml": [{"apps": [{"name": "hello", "sources": ["main.c"]}]}],
         "special/laze.yml": [{"apps": [{"name": "hello", "context": "special", "sources": ["main_special.c"]}]}]}
    out.append((f, {"local": "generic"})); out.append((f, {"local": "special"})); out.append((f, {}))
    # 46: a task guarded by required_vars whose command computes with the guarded variable: builds that lack
    #     the variable simply do not offer the task (nothing is evaluated there)
    f = base([], [{"name": "app", "sources": ["main.c"]}],
             builders=[{"name": "b0", "env": {"PORT": "8000"}}, {"name": "b1"}])
    f["laze-project.yml"][0]["contexts"][0]["tasks"] = {"serve": {"cmd": ["serve --port $(${PORT} + 1) ${out}"], "required_vars": ["PORT"]},
                                                        "plain": {"cmd": ["echo ${app}"]}}
    out.append((f, {}))
    # 47: optional sources guarded by a context module (context::<name> is selected for every builder below that context)
    mods = [{"name": "console", "sources": ["console.c", {"context::posix": ["console_posix.c"]}, {"context::bare": ["console_bare.c"]}, {"context::default": ["console_any.c"]}]}]
    out.append((base(mods, [{"name": "app", "sources": ["main.c"], "depends": ["console"]}],
                     contexts=[{"name": "posix", "parent": "default"}, {"name": "bare", "parent": "default"}],
                     builders=[{"name": "linux", "parent": "posix"}, {"name": "mcu", "parent": "bare"}, {"name": "b0"}]), {}))
    # 48: one lazefile listed by two documents with different defaults before it is loaded: the FIRST lister's
    #     defaults are inherited (also when a grandparent and a parent both list it)
    ctxdoc = {"contexts": [{"name": "default", "rules": RULES, "env": {"bindir": "${build-dir}/${builder}/${app}"}}], "builders": [{"name": "b0"}]}
    f = {"laze-project.yml": [ctxdoc,
                              {"defaults": {"module": {"env": {"global": {"CFLAGS": ["-DLIBRARIES"]}}}}, "subdirs": ["common", "libs"]},
                              {"defaults": {"module": {"env": {"global": {"CFLAGS": ["-DAPPLICATIONS"]}}}, "app": {"depends": ["common"]}}, "subdirs": ["common", "apps"]}],
         "common/laze.yml": [{"modules": [{"name": "common", "sources": ["common.c"]}]}],
         "libs/laze.yml": [{"modules": [{"name": "libx", "sources": ["libx.c"]}]}],
         "apps/laze.yml": [{"apps": [{"name": "hello", "sources": ["hello.c"], "depends": ["libx"]}]}]}
    out.append((f, {}))
    f = {"laze-project.yml": [dict(ctxdoc, defaults={"module": {"env": {"global": {"CFLAGS": ["-DROOT"]}}}}, subdirs=["a", "a/b"],
                                   apps=[{"name": "hello", "sources": ["hello.c"], "depends": ["bmod", "amod"]}])],
         "a/laze.yml": [{"defaults": {"module": {"env": {"global": {"CFLAGS": ["-DA"]}}}}, "subdirs": ["b"], "modules": [{"name": "amod", "sources": ["amod.c"]}]}],
         "a/b/laze.yml": [{"modules": [{"name": "bmod", "sources": ["bmod.c"]}]}]}
    out.append((f, {}))
    # 49: providers at three levels of a context chain that is declared child-first (also across files): the builder at
    #     the bottom sees all of them, nearest first
    mods = [{"name": "uart_generic", "provides": ["uart"], "sources": ["ug.c"]},
            {"name": "uart_family", "context": "family", "provides": ["uart"], "sources": ["uf.c"], "selects": ["rtt_console"]},
            {"name": "rtt_console", "context": "family", "sources": ["rtt.c"]},
            {"name": "uart_soc", "context": "soc", "provides": ["uart"], "sources": ["us.c"]},
            {"name": "uart_board", "context": "board", "provides": ["uart"], "sources": ["ub.c"]}]
    ctxs = [{"name": "soc", "parent": "family"}, {"name": "family", "parent": "default", "env": {"FAMILY": "f"}}]
    f = base(mods, [{"name": "app", "sources": ["main.c"], "depends": ["uart"]}], contexts=ctxs, builders=[{"name": "board", "parent": "soc"}, {"name": "b0"}])
    out.append((f, {}))
    f2 = {"laze-project.yml": [{"builders": [{"name": "board", "parent": "soc"}], "subdirs": ["boards", "cpu"], "apps": [{"name": "app", "sources": ["main.c"], "depends": ["uart"]}]}],
          "boards/laze.yml": [{"modules": mods[3:]}],
          "cpu/laze.yml": [{"contexts": [{"name": "soc", "parent": "family"}, {"name": "family"}, {"name": "default", "rules": RULES, "env": {"bindir": "${build-dir}/${builder}/${app}"}}],
                            "modules": mods[:3]}]}
    out.append((f2, {}))
    # 50: a module whose srcdir is an ABSOLUTE path, compiled by a non-shareable and by a shareable rule for two
    #     builders and two apps: objects stay below <build-dir>/objects, the non-shareable ones below <builder>/<app>
    mods = [{"name": "startup", "srcdir": "@ABSROOT@/ext/./boot", "sources": ["startup.S", "common.c"]},
            {"name": "abs2", "srcdir": "/opt/vendor//sdk", "sources": ["sdk.S"]}]
    f = base(mods, [{"name": "app", "sources": ["main.c"], "depends": ["startup"]}, {"name": "app2", "sources": ["main.c"], "depends": ["startup", "abs2"]}],
             builders=[{"name": "b0", "env": {"ASFLAGS": "-b0"}}, {"name": "b1", "env": {"ASFLAGS": "-b1"}}])
    f["laze-project.yml"][0]["contexts"][0]["rules"] = RULES + [{"name": "AS", "in": "S", "out": "o", "cmd": "as ${ASFLAGS} ${in} -o ${out}", "shareable": False}]
    out.append((f, {}))
    # 51: --disable next to in-file disables of the builder and of an ancestor context: the in-file ones stay in force
    mods = [{"name": "legacy_io", "sources": ["legacy_io.c"]}, {"name": "float_printf", "sources": ["fp.c"]}, {"name": "net", "sources": ["net.c"]}]
    f = base(mods, [{"name": "app", "sources": ["main.c"], "selects": ["?legacy_io", "?float_printf", "?net"]}],
             contexts=[{"name": "basec", "parent": "default", "disables": ["legacy_io"]}],
             builders=[{"name": "tiny", "parent": "basec", "disables": ["float_printf"]}, {"name": "big", "parent": "basec"}])
    out.append((f, {"disable": ["net"]})); out.append((f, {}))
    # 52: an empty allowlist (own, or from defaults, also two files down) means: built nowhere
    f = {"laze-project.yml": [{"contexts": [{"name": "default", "rules": RULES, "env": {"bindir": "${build-dir}/${builder}/${app}"}}],
                               "builders": [{"name": "b0"}, {"name": "b1"}], "subdirs": ["exp"],
                               "apps": [{"name": "parked", "sources": ["p.c"], "allowlist": []}, {"name": "normal", "sources": ["n.c"]},
                                        {"name": "unblocked", "sources": ["u.c"], "blocklist": []}]}],
         "exp/laze.yml": [{"defaults": {"app": {"allowlist": []}}, "subdirs": ["deeper"], "apps": [{"name": "nowhere", "sources": ["x.c"]}, {"name": "onb1", "sources": ["y.c"], "allowlist": ["b1"]}]}],
         "exp/deeper/laze.yml": [{"apps": [{"name": "deeper_nowhere", "sources": ["z.c"]}]}]}
    out.append((f, {})); out.append((f, {"local": "exp"}))
    # 53: var_options with from: — the rendered variable follows the SOURCE list of each module's env
    #     (exported and local additions), not only the global one
    mods = [{"name": "net", "sources": ["net.c"], "env": {"export": {"features": ["ipv6"]}, "local": {"features": ["netdebug"]}}},
            {"name": "plain", "sources": ["plain.c"]}]
    f = base(mods, [{"name": "app", "sources": ["main.c"], "depends": ["net", "plain"], "env": {"global": {"features": ["appwide"]}}}],
             builders=[{"name": "b0", "var_options": {"FEATURE_DEFINES": {"from": "features", "prefix": "-DFEATURE_"}, "features": {"joiner": ","}}, "env": {"features": ["base"]}},
                       {"name": "b1", "env": {"features": ["base"]}}])
    f["laze-project.yml"][0]["contexts"][0]["rules"] = [{"name": "CC", "in": "c", "out": "o", "cmd": "cc ${FEATURE_DEFINES} [${features}] -c ${in} -o ${out}"},
                                                        {"name": "LINK", "in": "o", "cmd": "ld ${FEATURE_DEFINES} ${in} -o ${out}"}]
    out.append((f, {}))
    # 54: disables at several levels of a context chain that is declared child-first: all of them hold for the builder
    mods = [{"name": "legacy_uart", "sources": ["lu.c"]}, {"name": "heavy", "sources": ["heavy.c"]}, {"name": "console", "sources": ["console.c"], "selects": ["?legacy_uart", "?heavy", "?third"]},
            {"name": "third", "sources": ["third.c"]}]
    f = base(mods, [{"name": "app", "sources": ["main.c"], "depends": ["console"]}],
             contexts=[{"name": "family", "parent": "vendor", "disables": ["heavy"]}, {"name": "vendor", "parent": "default", "disables": ["legacy_uart"]}],
             builders=[{"name": "board", "parent": "family", "disables": ["third"]}, {"name": "b0"}])
    out.append((f, {}))
    # 55: source names with blanks and colons (ninja splits path lists there): escaped in every build statement,
    #     so that two builders do not both "produce" the first word of the object path
    mods = [{"name": "odd", "sources": ["my file.c", "a:b.c", "c$ d.c"], "srcdir": "dir with blank"}]
    out.append((base(mods, [{"name": "app", "sources": ["main prog.c"], "depends": ["odd"]}]), {}))
    # 56: '-name' under selects: / uses: removes the inherited plain, optional and conditional entries (written
    #     without depends:, so that the removal is a purely textual operation the expansion of C17 can write out)
    f = base([{"name": "logging", "sources": ["log.c"], "env": {"export": {"CFLAGS": ["-DWITH_LOGGING"]}}}, {"name": "tls", "sources": ["tls.c"], "env": {"global": {"CFLAGS": ["-DWITH_TLS"]}}},
              {"name": "net", "sources": ["net.c"], "selects": ["-tls", "-logging"]}, {"name": "core", "sources": ["core.c"], "env": {"export": {"CFLAGS": ["-DCORE"]}}, "selects": ["-tls", "-logging"], "uses": ["-core"]},
              {"name": "quiet", "sources": ["quiet.c"], "selects": ["-logging", "-tls"]},
              {"name": "half", "sources": ["half.c"], "selects": ["-tls"], "uses": ["-core"]},
              {"name": "loud", "sources": ["loud.c"]}],
             [{"name": "app", "sources": ["main.c"], "selects": ["net", "quiet", "half", "loud"]},
              {"name": "app2", "sources": ["main.c"], "selects": ["net", "quiet", "-core"]}],
             defaults={"module": {"selects": ["?logging", {"net": ["tls"]}], "uses": ["core", "?logging"]}, "app": {"selects": ["core"]}})
    out.append((f, {}))
    # 57: YAML maps with several keys are read in DOCUMENT order (not sorted, not hashed): a conditional dependency map
    #     whose later key sorts first decides between two conflicting modules; optional-source and export maps likewise
    mods = [{"name": "net", "sources": ["net.c"]}, {"name": "fs", "sources": ["fs.c"]},
            {"name": "crypto_hw", "sources": ["hw.c"], "conflicts": ["crypto_sw"]}, {"name": "crypto_sw", "sources": ["sw.c"], "conflicts": ["crypto_hw"]},
            {"name": "multi", "sources": ["multi.c", {"zeta": ["z_first.c"], "alpha": ["a_second.c"], "net": ["n_third.c"]}]},
            {"name": "zeta"}, {"name": "alpha"}]
    f = base(mods, [{"name": "app", "sources": ["main.c"], "depends": ["net", "fs", {"net": ["?crypto_hw"], "fs": ["?crypto_sw"]}, "multi", "zeta", "alpha"]},
                    {"name": "app2", "sources": ["main.c"], "selects": ["zeta", "alpha", {"zeta": ["net"], "alpha": ["fs"], "fs": ["multi"]}]}])
    f["laze-project.yml"][0]["contexts"][0]["rules"] = [dict(RULES[0], export=[{"ZVAR": "z", "AVAR": "a", "MVAR": "${X}"}, "X"]), RULES[1]]
    out.append((f, {}))
    # 58: download with an EMPTY patch list: the patch step is still emitted and its tag file is what users wait for
    mods = [{"name": "sdk", "download": {"git": {"url": "https://example.org/sdk.git", "commit": "abc123"}, "patches": []}, "sources": ["sdk.c"]},
            {"name": "drv", "uses": ["sdk"], "sources": ["drv.c"]},
            {"name": "inside", "srcdir": "${build-dir}/dl/./sdk/sub", "sources": ["inside.c"]}]
    out.append((dlbase(mods, [{"name": "app", "sources": ["main.c"], "depends": ["drv", "sdk", "inside"]}]), {}))
    # 59: an empty document (nothing between two `---`) before a document whose defaults go down through subdirs, while
    #     the NEXT file that is loaded starts with a document that has defaults and subdirs too: documents are numbered
    #     across files, empty ones included, and defaults are handed down by that number
    ctxdoc = {"contexts": [{"name": "default", "rules": RULES, "env": {"bindir": "${build-dir}/${builder}/${app}"}}], "builders": [{"name": "b1"}, {"name": "b2"}],
              "subdirs": ["common"]}
    f = {"laze-project.yml": [ctxdoc, {}, {"defaults": {"app": {"blocklist": ["b2"], "env": {"global": {"CFLAGS": ["-DBOARD_APP"]}}}}, "subdirs": ["board_apps"]}],
         "common/laze.yml": [{"defaults": {"app": {"env": {"global": {"CFLAGS": ["-DCOMMON_APP"]}}}, "module": {"env": {"global": {"CFLAGS": ["-DCOMMON_MOD"]}}}}, "subdirs": ["drivers"],
                              "apps": [{"name": "common_app", "sources": ["c.c"]}]}],
         "common/drivers/laze.yml": [{"apps": [{"name": "driver_test", "sources": ["d.c"]}], "modules": [{"name": "drv", "sources": ["drv.c"]}]}],
         "board_apps/laze.yml": [{"apps": [{"name": "board_app", "sources": ["b.c"], "selects": ["?drv"]}]}]}
    out.append((f, {}))
    # 60: a dependency name that has BOTH a provider and a module of that name; the module of the name fails half way
    #     (one of its hard dependencies does not exist for this builder) after the provider was taken: its partial
    #     selection is rolled back, the provider stays
    mods = [{"name": "stdio_semi", "provides": ["stdio"], "sources": ["semi.c"]},
            {"name": "stdio", "sources": ["stdio.c"], "depends": ["ring", "uart"]},
            {"name": "ring", "sources": ["ring.c"], "env": {"global": {"CFLAGS": ["-DRING"]}}},
            {"name": "uart", "context": "b1", "sources": ["uart.c"]}]
    out.append((base(mods, [{"name": "app", "sources": ["main.c"], "depends": ["stdio"]}]), {}))
    # 61: --disable X while a module that conflicts X sits in an optional subtree that is rolled back (its second
    #     dependency does not exist): X stays disabled for the rest of the resolution
    mods = [{"name": "tele", "sources": ["t.c"], "selects": ["quiet", "cloud_sdk"]},
            {"name": "quiet", "sources": ["q.c"], "conflicts": ["console"]},
            {"name": "console", "sources": ["c.c"]}, {"name": "logging", "sources": ["l.c"]}]
    for cli in ({"disable": ["console"]}, {}):
        out.append((base(mods, [{"name": "app", "sources": ["main.c"], "selects": ["logging", "?tele", "?console"]}]), dict(cli)))
    #     ... the same with a disabled PROVIDED name, and with the builder's own disables instead of the command line
    mods2 = [dict(m) for m in mods]; mods2[2] = {"name": "console_impl", "sources": ["c.c"], "provides": ["console"]}
    out.append((base(mods2, [{"name": "app", "sources": ["main.c"], "selects": ["logging", "?tele", "?console"]}]), {"disable": ["console"]}))
    out.append((base(mods, [{"name": "app", "sources": ["main.c"], "selects": ["logging", "?tele", "?console"]}],
                     builders=[{"name": "b0", "disables": ["console"]}, {"name": "b1"}]), {}))
    # 62: rules whose input extensions differ only in case (plain and preprocessed assembly) are different rules; a
    #     builder that overrides the rule for `s` leaves the inherited rule for `S` alone; `.c` is not `c`
    ctx = [{"name": "default", "rules": RULES + [{"name": "AS", "in": "s", "out": "o", "cmd": "as ${in} -o ${out}"},
                                                  {"name": "ASCPP", "in": "S", "out": "o", "cmd": "cc -x assembler-with-cpp -c ${in} -o ${out}"}],
            "env": {"bindir": "${build-dir}/${builder}/${app}"}}]
    f = {"laze-project.yml": [{"contexts": ctx, "builders": [{"name": "host"}, {"name": "cortex", "rules": [{"name": "AS_THUMB", "in": "s", "out": "o", "cmd": "as -mthumb ${in} -o ${out}"}]},
                                                            {"name": "upper", "rules": [{"name": "CC_UP", "in": "C", "out": "o", "cmd": "c++ -c ${in} -o ${out}"}]}],
                               "apps": [{"name": "app", "sources": ["main.c", "switch.s", "vectors.S"]}, {"name": "app2", "sources": ["main.c", "other.C"], "allowlist": ["upper"]}]}]}
    out.append((f, {}))
    # 63: a rule export written as a bare name (`export: [NS]` means NS=${NS}) for a variable the command does not
    #     mention: every module's statements carry that module's own value
    ctx = [{"name": "default", "rules": [{"name": "CC", "in": "c", "out": "o", "cmd": "cc ${CFLAGS} -c ${in} -o ${out}", "export": ["NS", {"FIXED": "f"}]}, RULES[1]],
            "env": {"bindir": "${build-dir}/${builder}/${app}", "NS": "global-ns"}}]
    mods = [{"name": "alpha", "sources": ["alpha.c"], "env": {"local": {"NS": "alpha-ns"}}},
            {"name": "beta", "sources": ["beta.c"], "env": {"local": {"NS": "beta-ns"}}},
            {"name": "gamma", "sources": ["gamma.c"]}]
    f = {"laze-project.yml": [{"contexts": ctx, "builders": [{"name": "b0"}], "modules": mods,
                               "apps": [{"name": "app", "sources": ["main.c"], "depends": ["alpha", "beta", "gamma"], "env": {"local": {"NS": "app-ns"}}}]}]}
    out.append((f, {}))
    # 64: an exported value that mentions a variable the exporter ALSO defines locally: exports travel unexpanded, the
    #     name is looked up in the importer's env (the exporter's local value does not travel with it)
    mods = [{"name": "libfoo", "sources": ["libfoo.c"], "env": {"local": {"incdir": "private-inc", "X": "foo-local-x"}, "export": {"CFLAGS": ["-I${relpath}/${incdir}", "-DX=${X}"]}}},
            {"name": "libbar", "sources": ["libbar.c"], "uses": ["libfoo"], "env": {"local": {"incdir": "bar-inc"}}},
            {"name": "libbaz", "sources": ["libbaz.c"], "depends": ["libbar"]}]
    f = base(mods, [{"name": "app", "sources": ["main.c"], "depends": ["libfoo", "libbaz"]}])
    f["laze-project.yml"][0]["contexts"][0]["env"].update({"incdir": "include", "X": "global-x"})
    out.append((f, {}))
    # 65: `${...}` in the url / commit of a download is NOT a laze variable there (the values are written as they are):
    #     one download statement for the module, whatever the builders' envs say
    mods = [{"name": "netlib", "download": {"git": {"url": "${MIRROR}/netlib.git", "commit": "${NETLIB_VERSION}"}}, "sources": ["net.c"], "env": {"local": {"NETLIB_VERSION": "mod-local"}}}]
    f = dlbase(mods, [{"name": "app", "sources": ["main.c"], "depends": ["netlib"]}],
               builders=[{"name": "b0", "env": {"NETLIB_VERSION": "v1.2", "MIRROR": "https://a.example"}}, {"name": "b1", "env": {"NETLIB_VERSION": "v2.0-rc1"}}])
    out.append((f, {}))
    # 66: builder and app names that differ only in characters a "safe file name" would fold together: the private
    #     object directories of a non-shareable rule stay distinct
    f = base([{"name": "proto", "sources": ["proto.S"]}],
             [{"name": "net/echo", "sources": ["main.c"], "depends": ["proto"], "env": {"global": {"ASFLAGS": "-DECHO"}}},
              {"name": "net_echo", "sources": ["main.c"], "depends": ["proto"], "env": {"global": {"ASFLAGS": "-DUNDERSCORE"}}},
              {"name": "net echo", "sources": ["main.c"], "depends": ["proto"], "env": {"global": {"ASFLAGS": "-DBLANK"}}}],
             builders=[{"name": "b:0"}, {"name": "b_0"}])
    f["laze-project.yml"][0]["contexts"][0]["rules"] = RULES + [{"name": "AS", "in": "S", "out": "o", "cmd": "as ${ASFLAGS} ${in} -o ${out}", "shareable": False}]
    out.append((f, {}))
    # 67: builders with DIFFERENT rule sets next to each other (only the middle one has a POST_LINK rule and a rule for
    #     .S), many apps: what a builder's chain does not define is not there for it, whatever was configured before on
    #     the same worker
    blds = [{"name": "sim"}, {"name": "board", "rules": [{"name": "POST_LINK", "in": "elf", "out": "hex", "cmd": "objcopy ${in} ${out}"},
                                                          {"name": "AS", "in": "S", "out": "o", "cmd": "as ${in} -o ${out}"}]}, {"name": "zhost"}]
    apps = [{"name": "w%02d" % i, "sources": ["w%02d.c" % i]} for i in range(8)]
    out.append((base([], apps, builders=blds), {}))
    # 68: apps declared by a file that is pulled in with includes: from a directory that has no lazefile of its own: they
    #     belong to THAT directory (relpath), local mode from there builds them
    f = base([{"name": "lib", "sources": ["lib.c"]}], [{"name": "rootapp", "sources": ["main.c"]}])
    f["laze-project.yml"][0]["includes"] = ["tests/tests.yml"]; f["laze-project.yml"][0]["subdirs"] = ["src"]
    f["tests/tests.yml"] = [{"apps": [{"name": "test_a", "sources": ["ta.c"], "depends": ["lib"]}, {"name": "test_b", "sources": ["tb.c"]}]}]
    f["src/laze.yml"] = [{"apps": [{"name": "srcapp", "sources": ["s.c"]}]}]
    out.append((f, {})); out.append((f, {"local": "tests"}))
    # 69: a builder whose parent is a builder, an app with both lists: for the child the blocklisted parent builder
    #     (distance 1) is nearer than the allowlisted context further up (distance 2) -- whatever was asked before
    ctxs = [{"name": "arm", "parent": "default"}]
    blds = [{"name": "native"}, {"name": "nrf", "parent": "arm"}, {"name": "nrf-debug", "parent": "nrf"}, {"name": "nrf-debug-x", "parent": "nrf-debug"}]
    apps = [{"name": "sensor", "sources": ["main.c"], "allowlist": ["arm"], "blocklist": ["nrf"]},
            {"name": "probe", "sources": ["p.c"], "allowlist": ["nrf-debug"], "blocklist": ["arm"]},
            {"name": "plain", "sources": ["q.c"]}]
    out.append((base([], apps, contexts=ctxs, builders=blds), {}))
    # 70: a variable whose value mentions ${out} (or an undefined name), used by the LINK rule, the POST_LINK rule AND a
    #     task: for the link rules ${out}/${in} are ninja's and undefined names stay; for the task ${out} is the
    #     binary and undefined names are empty -- each use is expanded on its own
    ctx = [{"name": "default", "rules": [RULES[0], {"name": "LINK", "in": "o", "cmd": "ld ${LIBDIR} ${in} -o ${out} -Map=${MAPFILE}"},
                                          {"name": "POST_LINK", "in": "elf", "out": "bin", "cmd": "objcopy ${in} ${out} # ${MAPFILE} ${LIBDIR}"}],
            "env": {"bindir": "${build-dir}/${builder}/${app}", "MAPFILE": "${out}.map", "LIBDIR": "-L${LIBDIR_NOT_SET}", "INFILE": "${in}.lst"},
            "tasks": {"size": {"cmd": ["size MAP=${MAPFILE} [${LIBDIR}] ${INFILE} ${out}"], "build": False},
                      "flash": {"cmd": ["flash ${out} ${MAPFILE}", "echo ${MAPFILE}"]}}}]
    f = {"laze-project.yml": [{"contexts": ctx, "builders": [{"name": "b0"}, {"name": "b1"}], "apps": [{"name": "app", "sources": ["main.c"]}]}]}
    out.append((f, {}))
    # 71: a sub-directory document that consists of `apps:` alone (the directory-named app) under app defaults that
    #     come down through subdirs:, next to one with an empty list
    f = base([{"name": "basemod", "sources": ["basemod.c"], "env": {"export": {"CFLAGS": ["-DBASE"]}}}], [])
    f["laze-project.yml"][0]["defaults"] = {"app": {"sources": ["common_main.c"], "selects": ["basemod"], "uses": ["basemod"], "env": {"global": {"CFLAGS": ["-DFROM_DEFAULTS"]}}}}
    f["laze-project.yml"][0]["subdirs"] = ["hello", "quiet"]
    f["hello/laze.yml"] = [{"apps": None}]
    f["quiet/laze.yml"] = [{"apps": []}, {"apps": None}]
    out.append((f, {}))
    # 72: one task name on several levels of a builder's chain: the NEAREST declaration is the task (its command, its
    #     requirements, its build: flag); a module's task of that name beats the contexts'
    ctxs = [{"name": "family", "parent": "default", "tasks": {"flash": {"cmd": ["flash-generic ${PORT}"], "required_vars": ["PORT"]},
                                                              "term": {"cmd": ["term-generic"]}}}]
    blds = [{"name": "hw", "parent": "family", "env": {"PORT": "/dev/ttyACM0"}},
            {"name": "sim", "parent": "family", "tasks": {"flash": {"cmd": ["echo nothing to flash for ${app}"], "build": False}}},
            {"name": "sim2", "parent": "sim", "tasks": {"term": {"cmd": ["term-sim2"], "required_modules": ["console"]}}}]
    mods = [{"name": "console", "sources": ["console.c"], "tasks": {"term": {"cmd": ["term-from-module"]}}}]
    out.append((base(mods, [{"name": "app", "sources": ["main.c"]}, {"name": "capp", "sources": ["c.c"], "selects": ["console"]}], contexts=ctxs, builders=blds), {}))
    # 73: a source listed twice (by the module itself, and by defaults plus the module): the list keeps its order and
    #     both entries (one compile statement, the object twice on the link line)
    mods = [{"name": "uart", "sources": ["uart.c", "log.c", "ring.c", "fifo.c", "log.c", "zz.c"]},
            {"name": "spi", "sources": ["spi.c", "log.c"]}]
    f = base(mods, [{"name": "app", "sources": ["main.c"], "depends": ["uart", "spi"]}])
    f["laze-project.yml"][0]["defaults"] = {"module": {"sources": ["log.c"]}}
    out.append((f, {}))
    # 74: --disable of names that contain `:` (namespaced modules, provided markers): the whole string is the name, for
    #     every builder
    mods = [{"name": "net::ipv6", "sources": ["ipv6.c"]}, {"name": "net::ipv4", "sources": ["ipv4.c"]},
            {"name": "flasher", "sources": ["fl.c"], "provides": ["::task::flash"]}, {"name": "b0:only", "sources": ["bo.c"]}]
    apps = [{"name": "app", "sources": ["main.c"], "selects": ["net::ipv4", "?net::ipv6", "?::task::flash", "?b0:only"]}]
    out.append((base(mods, apps), {"disable": ["net::ipv6", "::task::flash", "b0:only"]}))
    out.append((base(mods, apps), {"disable": ["b1:net::ipv4"]}))
    # 75: two rules of one NAME for different extensions on a builder's chain (rules are looked up by extension; the
    #     name says nothing): each source is compiled by the rule for ITS extension
    ctx = [{"name": "default", "rules": RULES + [{"name": "ASM", "in": "S", "out": "o", "cmd": "cc -x assembler-with-cpp -c ${in} -o ${out}"}],
            "env": {"bindir": "${build-dir}/${builder}/${app}"}}]
    f = {"laze-project.yml": [{"contexts": ctx, "builders": [{"name": "b0", "rules": [{"name": "ASM", "in": "s", "out": "o", "cmd": "as-plain ${in} -o ${out}"}]}, {"name": "b1"}],
                               "modules": [{"name": "startup", "sources": ["vectors.s", "crt0.S"]}],
                               "apps": [{"name": "app", "sources": ["main.c", "boot.S", "tail.s"], "depends": ["startup"], "blocklist": ["b1"]},
                                        {"name": "app1", "sources": ["main.c", "only.S"]}]}]}
    out.append((f, {}))
    # 76: a project that has variables called like directories laze chooses itself (objdir, build-dir is reserved):
    #     they are the project's own business, laze's objects stay under <build-dir>/objects
    f = base([{"name": "lib", "sources": ["lib.c"], "env": {"global": {"objdir": "lst/from-module"}}}], [{"name": "app", "sources": ["main.c"], "depends": ["lib"]}])
    f["laze-project.yml"][0]["contexts"][0]["env"].update({"objdir": "lst/${builder}", "objects": "elsewhere", "outdir": "/abs/out"})
    out.append((f, {})); out.append((f, {"define": ["objdir=/tmp/cli-objdir"]}))
    # 77: a source directory that expands to a path with TWO leading slashes (an empty prefix variable before an absolute
    #     one): still made relative as a whole before it is pushed onto the (private) object directory
    f = base([{"name": "sdkmod", "srcdir": "${SYSROOT}/${SDK_DIR}/src", "sources": ["startup.S", "plain.c"]}],
             [{"name": "app", "sources": ["main.c"], "depends": ["sdkmod"]}],
             builders=[{"name": "b0", "env": {"ASFLAGS": "-b0"}}, {"name": "b1", "env": {"ASFLAGS": "-b1"}}])
    f["laze-project.yml"][0]["contexts"][0]["env"].update({"SYSROOT": "", "SDK_DIR": "/opt/sdk"})
    f["laze-project.yml"][0]["contexts"][0]["rules"] = RULES + [{"name": "AS", "in": "S", "out": "o", "cmd": "as ${ASFLAGS} ${in} -o ${out}", "shareable": False}]
    out.append((f, {}))
    # 78: two variables rendered from: two other variables on one builder: each takes the elements of ITS source
    ctx = [{"name": "default", "rules": [{"name": "CC", "in": "c", "out": "o", "cmd": "cc ${INC} ${DEFS} -c ${in} -o ${out}"}, RULES[1]],
            "env": {"bindir": "${build-dir}/${builder}/${app}", "includes": ["inc/a", "inc/b"], "defines": ["FOO", "BAR"]},
            "var_options": {"INC": {"from": "includes", "prefix": "-I", "start": "<", "end": ">"}, "DEFS": {"from": "defines", "prefix": "-D", "joiner": ",", "start": "[", "end": "]"}}}]
    f = {"laze-project.yml": [{"contexts": ctx, "builders": [{"name": "b0"}, {"name": "b1", "env": {"defines": ["ONLY_B1"]}}],
                               "modules": [{"name": "m", "sources": ["m.c"], "env": {"local": {"includes": ["inc/m"]}}}],
                               "apps": [{"name": "app", "sources": ["main.c"], "depends": ["m"]}]}]}
    out.append((f, {}))
    # 79: var_options on a context that has no env: (nor has any context above it): builders below it inherit the options
    ctx = [{"name": "default", "rules": [{"name": "CC", "in": "c", "out": "o", "cmd": "cc ${includes} -c ${in} -o ${out}"}, RULES[1]]},
           {"name": "family", "parent": "default", "var_options": {"includes": {"prefix": "-I", "joiner": ","}}},
           {"name": "other", "parent": "default", "env": {"includes": ["inc/o"]}, "var_options": {"includes": {"prefix": "-i"}}}]
    blds = [{"name": "b0", "parent": "family", "env": {"bindir": "out/${builder}/${app}", "includes": ["inc/a", "inc/b"]}},
            {"name": "b1", "parent": "other", "env": {"bindir": "out/${builder}/${app}"}},
            {"name": "b2", "parent": "b0"}]
    f = {"laze-project.yml": [{"contexts": ctx, "builders": blds, "apps": [{"name": "app", "sources": ["main.c"]}]}]}
    out.append((f, {}))
    # 80: a downloaded module is a build dependency whatever it says itself (`is_build_dep: false` is accepted and has no effect)
    mods = [{"name": "minilib", "download": dict(git), "sources": ["mini.c"], "is_build_dep": False},
            {"name": "user", "sources": ["user.c"], "uses": ["minilib"]}]
    out.append((dlbase(mods, [{"name": "app", "sources": ["main.c"], "depends": ["user", "minilib"]}]), {}))
    return out
