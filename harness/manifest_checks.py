"""Property checkers evaluated on a parsed ninja file (the implementation's own output).
The Coq twins are in coq/model/Checks.v (wf_manifestb ...)."""
from .ninja_parse import base_name

USER_RULES = {"BUILD", "LINK", "POST_LINK", "phony"}     # statements whose outputs the user chooses
DL_RULES = {"GIT_DOWNLOAD", "GIT_PATCH"}                 # statements that fetch/patch a module's sources into <build-dir>/dl

def norm(p):
    return "/".join(c for c in p.split("/") if c not in (".", ""))

def download_dirs(files, build_dir="build"):
    """download directories of the project's modules, and those claimed by more than one module definition"""
    import os
    seen = {}; clash = set()
    for fname, docs in files.items():
        rel = os.path.dirname(fname) or "."
        for d in docs:
            for key in ("modules", "apps"):
                for m in d.get(key) or []:
                    dl = m.get("download")
                    if not dl: continue
                    name = m.get("name") or rel
                    sd = norm(build_dir + "/dl/" + (dl["dldir"] if dl.get("dldir") else rel + "/" + name))
                    ident = json_id(m)
                    if sd in seen and seen[sd] != ident: clash.add(sd)
                    seen.setdefault(sd, ident)
    return set(seen), clash

def download_dir_owners(files, build_dir="build"):
    """download directory -> names of the modules that download into it"""
    import os
    out = {}
    for fname, docs in files.items():
        rel = os.path.dirname(fname) or "."
        for d in docs:
            for key in ("modules", "apps"):
                for m in d.get(key) or []:
                    dl = m.get("download")
                    if not dl: continue
                    name = m.get("name") or rel
                    sd = norm(build_dir + "/dl/" + (dl["dldir"] if dl.get("dldir") else rel + "/" + name))
                    out.setdefault(sd, []).append(name)
    return out

def json_id(m):
    import json
    return json.dumps({k: v for k, v in m.items() if k != "context"}, sort_keys=True)

def wf_manifest(parsed, required_outs):
    """-> list of (clause, detail, user_chosen: bool)"""
    bad = []
    producers = {}
    defined = set()
    rules_seen = {}
    for kind, idx in parsed["order"]:
        if kind == "rule":
            r = parsed["rules"][idx]
            if r["name"] in rules_seen:
                bad.append(("rule-defined-twice", r["name"], False))
            rules_seen[r["name"]] = r
            defined.add(r["name"])
        else:
            b = parsed["builds"][idx]
            if b["rule"] != "phony" and b["rule"] not in defined:
                bad.append(("rule-used-before-definition", b["rule"], False))
            if not b["outs"]:
                bad.append(("statement-without-output", b["rule"], base_name(b["rule"]) in USER_RULES))
            for o in b["outs"]:
                producers.setdefault(o, []).append(b)
    for o, ps in producers.items():
        if len(ps) > 1:
            user = all(base_name(p["rule"]) in USER_RULES for p in ps)
            if user and all(p["rule"] == "phony" for p in ps) and norm(o).startswith("build/dl/"):
                user = False      # laze's own phony statements for downloaded sources: one text per file
            bad.append(("output-produced-twice", o, user))
    for o in required_outs:
        if o not in producers:
            bad.append(("app-output-not-a-target", o, False))
    return bad

def under_builddir(parsed, build_dir="build"):
    """objects (outputs of compile statements) must lie under build-dir/objects"""
    bad = []
    for b in parsed["builds"]:
        if base_name(b["rule"]) in USER_RULES or base_name(b["rule"]) in DL_RULES: continue
        if len(b["inputs"]) == 1 and not b["inputs"][0].startswith("/") and ".." not in b["inputs"][0]:
            for o in b["outs"]:
                if not o.startswith(build_dir + "/objects/"):
                    bad.append(("object-outside-build-dir", o))
    return bad

def compile_stmts(parsed):
    return [b for b in parsed["builds"] if len(b["inputs"]) == 1 and base_name(b["rule"]) not in ("phony", "LINK", "POST_LINK", "BUILD", "GIT_DOWNLOAD", "GIT_PATCH")]

def sharing(parsed, nonshareable_rules, builds):
    """C07 on one file: for compile statements of the same source:
       same object <=> same rule content and same order-only deps (shareable rules);
       non-shareable rules: object under objects/<builder>/<app>/ of a configured build"""
    bad = []
    rules = {r["name"]: r["vars"] for r in parsed["rules"]}
    by_input = {}
    for b in compile_stmts(parsed):
        by_input.setdefault(b["inputs"][0], []).append(b)
    prefixes = ["build/objects/%s/%s/" % (x["builder"], x["app"]) for x in builds]
    for inp, bs in by_input.items():
        for i in range(len(bs)):
            bi = bs[i]
            ns_i = base_name(bi["rule"]) in nonshareable_rules
            if ns_i:
                if not any(o.startswith(p) for o in bi["outs"] for p in prefixes):
                    bad.append(("nonshareable-object-not-private", inp, bi["outs"]))
            for j in range(i + 1, len(bs)):
                bj = bs[j]
                if ns_i and base_name(bj["rule"]) in nonshareable_rules and bi["outs"] == bj["outs"]:
                    # two DIFFERENT statements (identical ones are one line of the file) of a non-shareable rule for
                    # one source come from different builds: each build has its own object
                    bad.append(("nonshareable-object-shared-between-builds", inp, bi["outs"]))
                if ns_i or base_name(bj["rule"]) in nonshareable_rules: continue
                same_out = bi["outs"] == bj["outs"]
                same_content = rules.get(bi["rule"]) == rules.get(bj["rule"]) and base_name(bi["rule"]) == base_name(bj["rule"]) \
                               and sorted(bi["deps"]) == sorted(bj["deps"]) and bi.get("always") == bj.get("always")
                if same_out and not same_content:
                    bad.append(("shared-object-different-statements", inp, bi["outs"]))
                if same_content and not same_out:
                    bad.append(("identical-statements-not-shared", inp, [bi["outs"], bj["outs"]]))
    return bad

def link_view(parsed):
    """per output of LINK statements: ordered inputs with hash parts kept"""
    return {b["outs"][0]: (b["inputs"], sorted(b["deps"])) for b in parsed["builds"] if base_name(b["rule"]) == "LINK" and b["outs"]}

def compile_view(parsed):
    """(input, rule base, out) triples"""
    return sorted((b["inputs"][0], base_name(b["rule"]), tuple(b["outs"])) for b in compile_stmts(parsed))

def compile_cmd_view(parsed):
    """(input, rule base name, the rule's command) of every compile statement: which RULE compiles a source — two rules of one
    name (declared for different extensions in different contexts) differ in their command"""
    rules = {r["name"]: r["vars"].get("command") for r in parsed["rules"]}
    return sorted((b["inputs"][0], base_name(b["rule"]), rules.get(b["rule"])) for b in compile_stmts(parsed))

def orderonly_view(parsed):
    """order-only deps of every statement. Compile statements are keyed by (rule base, source) -- their
    object names embed the hash of the deps -- and carry the sorted list of their deps tuples; other
    statements are keyed by their outputs"""
    v = {}
    for b in parsed["builds"]:
        base = base_name(b["rule"])
        if len(b["inputs"]) == 1 and base not in ("phony", "LINK", "POST_LINK", "BUILD"):
            v.setdefault((base, "src:" + b["inputs"][0]), []).append(tuple(sorted(b["deps"])))
        else:
            v[(base, tuple(b["outs"]))] = [(tuple(sorted(b["deps"])), tuple(b["inputs"]) if b["rule"] == "phony" else ())]
    return {k: sorted(x, key=str) for k, x in v.items()}

def link_sources(parsed):
    """per LINK output: the ordered list of (source, rule base) whose objects it consumes -- independent of how objects are named"""
    prod = {}
    for b in compile_stmts(parsed):
        for o in b["outs"]:
            prod.setdefault(o, (b["inputs"][0], base_name(b["rule"])))
    out = {}
    for b in parsed["builds"]:
        if base_name(b["rule"]) == "LINK" and b["outs"]:
            out[b["outs"][0]] = [prod.get(i, ("?", i)) for i in b["inputs"]]
    return out


def download_order(parsed, files, build_dir="build", builds=None):
    """C19, downloads: a compiled source that lies inside the download directory of a downloading module is itself the
    output of a phony statement that waits for a tag file of that directory (so ninja does not look for it before the
    download ran).  Directories are compared by path component."""
    dirs, _ = download_dirs(files, build_dir)
    if builds is not None:
        # a statement of the file cannot be attributed to one build (objects are shared): only the download
        # directories of modules that are selected in EVERY configured build are demanded — then whichever build
        # compiles the source also runs the download
        owners = download_dir_owners(files, build_dir)
        dirs = [d for d in dirs if builds and all(owners.get(d) and (set(owners[d]) & set(b.get("order") or b.get("modules") or [])) for b in builds)]
    bad = []
    producers = {}
    for b in parsed["builds"]:
        for o in b["outs"]: producers.setdefault(o, []).append(b)
    def inside(p, d):
        pc, dc = norm(p).split("/"), d.split("/")
        return pc[:len(dc)] == dc
    for b in compile_stmts(parsed):
        src = b["inputs"][0]
        ds = [d for d in dirs if inside(src, d)]
        if not ds: continue
        ok = False
        for pb in producers.get(src, []):
            waits = [norm(x) for x in pb["inputs"] + pb["deps"]]
            if pb["rule"] == "phony" and any(w in (d + "/.laze-downloaded", d + "/.laze-patched") for w in waits for d in ds):
                ok = True
        if not ok: bad.append(("downloaded-source-not-ordered-after-download", src, ds))
    return bad
