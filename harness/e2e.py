"""End-to-end correspondence: run hooked laze on a rendered project, run the model on the same
abstract project, compare (ninja file bytes, configured builds and their module lists,
not-built builds and reasons, error class)."""
import json, os, re, shutil, subprocess, tempfile
from concurrent.futures import ThreadPoolExecutor
from . import core, proj
from .core import hexs, unhexs

SCRATCH_PREFIX = "laze-verif-e2e-"

def clean_env(tmp, threads=None):
    env = {k: v for k, v in os.environ.items() if not k.startswith("LAZE_")}
    env.update(GIT_CACHE_DIR=os.path.join(tmp, "gitcache"), HOME=tmp, RUST_BACKTRACE="0",
               LAZE_VERIF_EVENTS=os.path.join(tmp, "events.log"))
    if threads: env["RAYON_NUM_THREADS"] = str(threads)
    return env

def take_events(tmp):
    """the event lines the hooked binary appended during the last run (hook `event` in src/verif_oracle.rs):
    a list of tuples, or None when the binary has no such hook. The checks read what happened from these
    instead of from the wording of laze's messages."""
    p = os.path.join(tmp, "events.log")
    if not os.path.exists(p): return None
    ev = [tuple(ln.split("\t")) for ln in open(p, encoding="utf-8", errors="replace").read().split("\n") if ln]
    os.remove(p)
    return ev

def was_cache_hit(events, stdout):
    if events is not None: return any(e[0] == "cache_hit" for e in events)
    return "laze: reading cache took" in stdout

def run_laze(laze, files, c, extra_args=None, keep=False, threads=None, info=True):
    """returns dict(rc, stdout, stderr, ninja(bytes or None), info(dict or None), root)"""
    tmp = tempfile.mkdtemp(prefix=SCRATCH_PREFIX)
    root = os.path.join(tmp, "p")
    try:
        proj.render(files, root)
        start = os.path.join(root, c["local"]) if c.get("local") not in (None, ".") else root
        bd = c.get("build_dir") or "build"
        args = [laze, "-C", start, "build"] + ([] if c.get("local") is not None else ["-g"]) + ["-G"] + (["-B", bd] if c.get("build_dir") else [])
        if info: args += ["--info-export", os.path.join(tmp, "info.json")]
        args += proj.argv(c) + (extra_args or [])
        try:
            p = subprocess.run(args, env=clean_env(tmp, threads), capture_output=True, timeout=60)
            rc, out, err = p.returncode, p.stdout.decode("utf-8", "replace"), p.stderr.decode("utf-8", "replace")
        except subprocess.TimeoutExpired:
            rc, out, err = "timeout", "", ""
        nf = os.path.join(root, bd, "build-local.ninja" if c.get("local") is not None else "build-global.ninja")
        ninja = open(nf, "rb").read() if os.path.exists(nf) else None
        inf = None; inf_raw = None
        ip = os.path.join(tmp, "info.json")
        if os.path.exists(ip):
            # the bytes of the file (the order of its keys is part of them), with the scratch directory blanked
            inf_raw = open(ip, "rb").read().replace(root.encode(), b"@ROOT@").replace(tmp.encode(), b"@TMP@")
            try: inf = json.load(open(ip))
            except Exception: inf = None
        return dict(rc=rc, stdout=out, stderr=err, ninja=ninja, info=inf, info_raw=inf_raw, root=root, argv=args[1:], events=take_events(tmp))
    finally:
        if not keep:
            shutil.rmtree(tmp, ignore_errors=True)

def model_request(files, c, laze, root):
    return proj.gen_request(files, c, c.get("build_dir") or "build", root, laze)

# ------------------------------------------------------------ parsing both sides
def parse_model(reply):
    """-> dict(kind='ok', builds=[...], nobuilds=[...], file=bytes) | dict(kind='err'|'panic'|'fuel'|'badrequest', tag)"""
    t = reply.split()
    if not t: return dict(kind="badreply", tag=reply)
    if t[0] != "ok":
        return dict(kind=t[0], tag=" ".join(t[1:3]))
    i = 1
    def num():
        nonlocal i; v = int(t[i]); i += 1; return v
    def s():
        nonlocal i; v = unhexs(t[i]); i += 1; return v
    def lst():
        return [s() for _ in range(num())]
    builds = []
    for _ in range(num()):
        assert t[i] == "B"; i += 1
        builder, app, out = s(), s(), s()
        mods, order = lst(), lst()
        tasks = {}
        for _ in range(num()):
            n = s(); st = t[i]; i += 1
            if st == "ok":
                cmds = lst(); ex = lst()
                wd = None if t[i] == "-" else s(); i += (1 if wd is None else 0)
                tasks[n] = dict(status="ok", cmd=cmds, export=list(zip(ex[0::2], ex[1::2])), workdir=wd)
            else:
                tasks[n] = dict(status=st, cmd=[], export=[])
        builds.append(dict(builder=builder, app=app, out=out, modules=mods, order=order, tasks=tasks))
    assert t[i] == "N"; i += 1
    nob = []
    for _ in range(num()):
        bname, app = s(), s(); why = t[i]; i += 1
        nob.append((bname, app, why))
    wf = None
    if t[i] == "W":
        wf = t[i + 1] == "1"; i += 2
    assert t[i] == "F"; i += 1
    f = b"" if t[i] == "." else bytes.fromhex(t[i])
    return dict(kind="ok", builds=builds, nobuilds=nob, file=f, wf=wf)

RE_NOTALLOWED = re.compile(r"^app (?:(?:\S+:)?(\S+)): (?:parent \S+ of )?builder (\S+) blocklisted$")
RE_NOTANC = re.compile(r"^app (\S+): builder (\S+) is not an ancestor of")
RE_CONFIGURING = re.compile(r"^configuring (\S+) for (\S+)$")
RE_SHADOWED = re.compile(r"^app (\S+): shadowed for builder (\S+) by the definition in context")
RE_UNRES = re.compile(r'^laze: not building binary "([^"]*)" for builder "([^"]*)"')
RE_CYCLE = re.compile(r"^error: (\S+) for (\S+): build dependency cycle detected")

def parse_impl(r):
    """classify the implementation's run"""
    out = dict(rc=r["rc"], crashed=False, nobuilds=[], builds=[], err=None)
    if r["rc"] == "timeout" or (isinstance(r["rc"], int) and (r["rc"] < 0 or r["rc"] in (101, 134, 139))):
        out["crashed"] = True
    out["configuring"] = []
    if r.get("events") is not None:
        for e in r["events"]:
            if e[0] == "configuring" and len(e) >= 3: out["configuring"].append((e[1], e[2]))
            elif e[0] == "nobuild" and len(e) >= 4: out["nobuilds"].append((e[1], e[2], e[3]))
    for ln in ([] if r.get("events") is not None else r["stdout"].splitlines()):
        m = RE_CONFIGURING.match(ln)
        if m: out["configuring"].append((m.group(2), m.group(1))); continue
        m = RE_NOTALLOWED.match(ln)
        if m: out["nobuilds"].append((m.group(2), m.group(1), "notallowed")); continue
        m = RE_NOTANC.match(ln)
        if m: out["nobuilds"].append((m.group(2), m.group(1), "notancestor")); continue
        m = RE_SHADOWED.match(ln)
        if m: out["nobuilds"].append((m.group(2), m.group(1), "shadowed")); continue
        m = RE_UNRES.match(ln)
        if m: out["nobuilds"].append((m.group(2), m.group(1), "unresolved")); continue
        m = RE_CYCLE.match(ln)
        if m: out["nobuilds"].append((m.group(2), m.group(1), "cycle")); continue
    if r["rc"] == 1:
        out["err"] = r["stderr"].strip().splitlines()[-1] if r["stderr"].strip() else "?"
    if r["info"]:
        for bname, apps in r["info"].get("builds", {}).items():
            for app, inf in apps.items():
                out["builds"].append(dict(builder=bname, app=app, out=inf["outfile"], order=list(inf["modules"].keys())))
    return out

def link_modules(ninja_text):
    """the `# <modules>` tails of LINK commands (the generator's LINK rule echoes ${modules}): selection order"""
    out = []
    for ln in ninja_text.splitlines():
        if ln.startswith("  command = ld ") and " # " in ln:
            out.append(ln.split(" # ", 1)[1])
    return sorted(out)

def compare(model, impl_raw):
    """-> (list of disagreement strings, parsed impl, set of tags)
    tags: crash, rc, ninja, configured (set of configured builds), modules (module sets), order (build order /
    selection order), outfile, nobuilds, predicted-panic"""
    impl = parse_impl(impl_raw)
    dis, tags = [], set()
    if impl["crashed"]:
        dis.append("implementation crashed/timeout rc=%s %s" % (impl["rc"], impl_raw["stderr"][-300:]))
        tags.add("crash")
        if model["kind"] == "ok" or model["kind"] == "err": tags.add("rc")
        return dis, impl, tags
    if model["kind"] == "ok":
        if impl["rc"] != 0:
            dis.append("model generates, implementation fails: rc=%s %s" % (impl["rc"], impl["err"]))
            tags.add("rc"); return dis, impl, tags
        if impl_raw["ninja"] is None:
            dis.append("no ninja file"); tags.add("ninja"); return dis, impl, tags
        if impl_raw["ninja"] != model["file"]:
            dis.append("ninja file differs"); tags.add("ninja")
            if link_modules(impl_raw["ninja"].decode("utf-8", "replace")) != link_modules(model["file"].decode("utf-8", "replace")):
                tags.add("order")
        mset = {(b["builder"], b["app"]): b for b in model["builds"]}
        iset = {(b["builder"], b["app"]): b for b in impl["builds"]}
        if set(mset) != set(iset):
            dis.append("configured builds differ: only model %s only impl %s" % (sorted(set(mset) - set(iset)), sorted(set(iset) - set(mset))))
            tags.add("configured")
        for k in set(mset) & set(iset):
            if sorted(mset[k]["order"]) != sorted(iset[k]["order"]):
                dis.append("module set of %s differs: model %s impl %s" % (k, mset[k]["order"], iset[k]["order"])); tags.add("modules")
            elif mset[k]["order"] != iset[k]["order"]:
                dis.append("module (build) order of %s differs: model %s impl %s" % (k, mset[k]["order"], iset[k]["order"])); tags.add("order")
            if mset[k]["out"] != iset[k]["out"]:
                dis.append("outfile of %s differs" % (k,)); tags.add("outfile")
        if sorted(model["nobuilds"]) != sorted(impl["nobuilds"]):
            dis.append("not-built builds differ: model %s impl %s" % (sorted(model["nobuilds"]), sorted(impl["nobuilds"])))
            tags.add("nobuilds")
    elif model["kind"] == "err":
        if impl["rc"] != 1:
            dis.append("model rejects (%s), implementation rc=%s" % (model["tag"], impl["rc"])); tags.add("rc")
    else:
        dis.append("model outcome %s %s; implementation rc=%s" % (model["kind"], model["tag"], impl["rc"]))
        tags.add("predicted-panic")
    return dis, impl, tags

def run_batch(laze, driver, cases, threads=None, workers=None):
    """cases: list of (files, cli). returns list of dict(model, impl_raw, impl, dis, request)"""
    workers = workers or core.NCPU
    with ThreadPoolExecutor(workers) as ex:
        raws = list(ex.map(lambda fc: run_laze(laze, fc[0], fc[1], threads=threads), cases))
    reqs = [model_request(f, c, laze, r["root"]) for (f, c), r in zip(cases, raws)]
    replies, _ = core.run_model_ev(laze, driver, reqs)
    out = []
    for (f, c), raw, rq, rep in zip(cases, raws, reqs, replies):
        try:
            m = parse_model(rep)
        except Exception as e:
            m = dict(kind="badreply", tag=str(e) + rep[:200])
        dis, impl, tags = compare(m, raw)
        out.append(dict(files=f, cli=c, model=m, impl_raw=raw, impl=impl, dis=dis, tags=tags, request=rq, reply=rep))
    return out


FAKE_NINJA = """#!/bin/sh
# fake ninja: log argv (one line per invocation, args separated by \\x1f), exit with the scripted code
printf '%s' "$*" | tr ' ' '\037' >> "$LAZE_VERIF_NINJA_LOG"
echo >> "$LAZE_VERIF_NINJA_LOG"
# "kill": ninja dies from a signal (no exit code): a failed build like any other
[ "$LAZE_VERIF_NINJA_RC" = kill ] && kill -KILL $$
exit ${LAZE_VERIF_NINJA_RC:-0}
"""

def run_sequence(laze, files, steps, threads=None):
    """Several laze runs in ONE project directory (build dir and cache kept between steps).
    step: dict(cli=..., args=[extra argv], edit=callable(root) or None, generate_only=True, ninja_rc=0, env={})
    returns list of dict(rc, stdout, stderr, ninja(bytes|None), ninja_argv([[..]]), cache_hit(bool))"""
    tmp = tempfile.mkdtemp(prefix=SCRATCH_PREFIX)
    root = os.path.join(tmp, "p")
    out = []
    try:
        proj.render(files, root)
        bindir = os.path.join(tmp, "bin"); os.makedirs(bindir)
        nj = os.path.join(bindir, "ninja"); open(nj, "w").write(FAKE_NINJA); os.chmod(nj, 0o755)
        for st in steps:
            if st.get("edit"): st["edit"](root)
            c = st.get("cli", {})
            start = os.path.join(root, c["local"]) if c.get("local") not in (None, ".") else root
            args = [laze, "-C", start, "build"] + ([] if c.get("local") is not None else ["-g"])
            if st.get("generate_only", True): args.append("-G")
            args += proj.argv(c) + st.get("args", [])
            log = os.path.join(tmp, "ninja.log")
            if os.path.exists(log): os.remove(log)
            env = clean_env(tmp, threads)
            env.update(PATH=bindir + ":" + env.get("PATH", ""), LAZE_VERIF_NINJA_LOG=log, LAZE_VERIF_NINJA_RC=str(st.get("ninja_rc", 0)))
            env.update(st.get("env", {}))
            try:
                p = subprocess.run(args, env=env, capture_output=True, timeout=60)
                rc, so, se = p.returncode, p.stdout.decode("utf-8", "replace"), p.stderr.decode("utf-8", "replace")
            except subprocess.TimeoutExpired:
                rc, so, se = "timeout", "", ""
            nf = os.path.join(root, "build", "build-local.ninja" if c.get("local") is not None else "build-global.ninja")
            ninja = open(nf, "rb").read() if os.path.exists(nf) else None
            argvs = []
            if os.path.exists(log):
                argvs = [ln.split("\x1f") if ln else [] for ln in open(log).read().split("\n")[:-1]]
            ev = take_events(tmp)
            out.append(dict(rc=rc, stdout=so, stderr=se, ninja=ninja, ninja_argv=argvs, root=root, events=ev,
                            cache_hit=was_cache_hit(ev, so), argv=args[1:]))
        return out
    finally:
        shutil.rmtree(tmp, ignore_errors=True)
