#!/bin/bash
# usage: try_mutant.sh <patch.diff> <ID>...   -- apply patch to /repo, run quick checks, undo
P=$1; shift
git -C /repo apply "$P" || exit 2
for id in "$@"; do
  (cd /verif && ./check run $id --tier quick 2>&1 | grep -E "VIOLATION|KNOWN|harness:" | head -5; echo "$id rc=${PIPESTATUS[0]}")
done
git -C /repo checkout -- .
git -C /repo status --short | head -3
