import sys, json; sys.path.insert(0, '/verif')
from harness import core, e2e
laze = core.build_impl(); drv = core.build_model()
corpus = json.load(open('/verif/corpus/upstream.json'))
names = sys.argv[1:] or list(corpus)
cases = [(corpus[n], {}) for n in names]
res = e2e.run_batch(laze, drv, cases)
bad = 0
for n, r in zip(names, res):
    if r['dis']:
        bad += 1
        print(n, r['dis'], r['model']['kind'], r['model'].get('tag'), 'impl rc', r['impl']['rc'], r['impl']['err'])
        if '-v' in sys.argv or len(names) == 1:
            if r['model']['kind'] == 'ok' and r['impl_raw']['ninja'] is not None:
                a = r['model']['file'].decode('utf-8', 'replace').splitlines(); b = r['impl_raw']['ninja'].decode('utf-8', 'replace').splitlines()
                import difflib
                print("\n".join(list(difflib.unified_diff(b, a, 'impl', 'model', lineterm=''))[:60]))
                print([ (x['builder'],x['app'],x['order']) for x in r['model']['builds']][:3]); print([ (x['builder'],x['app'],x['order']) for x in r['impl']['builds']][:3])
            else:
                print(r['reply'][:300]); print(r['impl_raw']['stderr'][-300:])
print("corpus: %d cases, %d disagree" % (len(names), bad))
