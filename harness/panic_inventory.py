"""Inventory of potential panic sites in laze's sources (C15): unwrap()/expect()/panic!/unreachable!/
todo!/unimplemented!/assert! and direct indexing, outside tests and src/verif_oracle.rs, normalised.
Reviewed list: corpus/panic_inventory.json. A new or changed site breaks the tie."""
import json, os, re, sys

PAT = re.compile(r"\.unwrap\(\)|\.expect\(|\bpanic!|\bunreachable!|\btodo!|\bunimplemented!|\bassert!|\bassert_eq!|\[[^\]\[]*\.\.[^\]\[]*\]|\.as_bytes\(\)\[")

def scan(repo="/repo"):
    """one entry per source line with a potential panic; the entry text is the statement it belongs to
    (lines joined back to the previous ';', '{' or '}'), so that a bare `.unwrap()` line has context"""
    out = []
    for root, _, files in os.walk(os.path.join(repo, "src")):
        if "/tests" in root: continue
        for f in sorted(files):
            if not f.endswith(".rs") or f == "verif_oracle.rs": continue
            p = os.path.join(root, f)
            in_tests = False; buf = []
            for ln in open(p, encoding="utf-8", errors="replace"):
                if re.match(r"\s*#\[cfg\(test\)\]", ln): in_tests = True
                if in_tests: continue
                code = ln.split("//")[0].strip()
                if not code: continue
                buf.append(code)
                if PAT.search(code):
                    stmt = re.sub(r"\s+", " ", " ".join(buf))
                    out.append("%s: %s" % (os.path.relpath(p, repo), stmt[-220:]))
                if code.endswith(";") or code.endswith("{") or code.endswith("}") or code.endswith("},") or code.endswith("};"):
                    buf = []
    return sorted(out)

def classify(line):
    rules = [
        (r"^src/(new|cli/completer|data/import)\.rs|git_cache|GIT_CACHE|clap|matches\.|get_one|create_manpage|print_completions|current_exe|signal|EXIT_ON_SIGINT|register_conditional", "off the `laze build` generation path / process setup (clap guarantees the argument exists, OS facilities)"),
        (r"NinjaRuleBuilder|NinjaBuildBuilder|NinjaCmdBuilder|ninja_cmd\.build\(\)|GeneratorBuilder|\.build\(\)\s*\.unwrap\(\)|\.build\(\) \.unwrap\(\)", "derive_builder with all required fields set: infallible by construction"),
        (r"defined_in\.as_ref\(\)\.unwrap\(\)", "defined_in is set by the loader for every context/module it reports (auto-created default is never reported)"),
        (r"parent_index\.unwrap\(\)|index\.unwrap\(\)|context_id\.unwrap\(\)|contexts_topo_sorted", "indices set by add_context/finalize/add_module before use (model: Panic 100/101 shown unreachable through generate)"),
        (r"relpath\.as_ref\(\)\.unwrap\(\)", "relpath is set by init_module for every loaded module (model: Panic 102)"),
        (r"laze_env\.get\(\"build-dir\"\)|unreachable!", "built-in variable inserted a few lines above"),
        (r"state_stack|should not pop", "resolver snapshot stack: pops match pushes"),
        (r"modules\.get\(dep_name\)\.unwrap\(\)|dependencies_of", "build-order nodes are module names (model: Panic 103)"),
        (r"filename\.parent\(\)\.unwrap\(\)|\.parent\(\)\s*\.unwrap\(\)|parent\(\)\.as_ref\(\)\.unwrap\(\)|strip_prefix", "file names produced by joining with a file component always have a parent"),
        (r"dep_name\[1\.\.\]|get_name\(\)\[1\.\.\]|get_name\(\)\[\.\.\]|&end\[\.\.\]|&f\[|f\[cursor|f\[\(start|input\[start|\[cursor \+ start - 1\]|as_bytes\(\)\[i", "string slices at ASCII delimiters found by find()/first byte tests (model: expand/eval proved total on bytes)"),
        (r"into_iter\(\)\.last\(\)\.unwrap\(\)", "OPEN: an empty map in an export list panics (known finding K15:empty-export-map)"),
        (r"srcdir\.as_ref\(\)\.unwrap\(\)|download", "download modules only (not modelled)"),
        (r"keep_going\.unwrap\(\)", "clap default value"),
        (r"command\.status\(\)\.expect|expect\(\"executing command\"\)", "OPEN: task shell cannot be spawned (OS); outside the model"),
        (r"to_str\(\)|UTF|utf8|Utf8PathBuf::try_from", "non-UTF-8 paths of the environment (OS)"),
        (r"Version::parse\(env!", "compile-time constant"),
        (r"module_build_dep_files|\.or_insert_with", "entry API"),
        (r"tasks\.get\(task\)\.unwrap\(\)", "builds were filtered by tasks.contains_key(task)"),
        (r"t\.1\.as_ref\(\)\.err\(\)\.unwrap\(\)", "guarded by is_err()"),
        (r"EXIT|set\(|OnceLock", "process setup"),
        (r"data\.filename\.as_ref\(\)\.unwrap\(\)|doc_idx\.unwrap\(\)", "filename/doc_idx are set by load_all for every parsed document"),
        (r"yaml_datas\[new_index_start\.\.new_index_end\]|filenames\.get_index\(filenames_pos\)", "indices bounded by the loop condition"),
        (r"sources_optional\.as_mut\(\)\.unwrap\(\)|\.rules \.as_mut\(\) \.unwrap\(\)", "set to Some a few lines above"),
        (r"add_context\(Context::new_default\(\)\)\.unwrap\(\)", "guarded by get_by_name(default).is_none()"),
        (r"build_context\.env\.as_ref\(\)\.unwrap\(\)", "Build::new always sets build_context.env"),
        (r"module_info\.as_ref\(\)\.unwrap\(\)", "insights are requested together with --info-export"),
        (r"&module\.name\[\.\.\]|&self\.context_name\[\.\.\]", "full-range slice"),
        (r"read_link|file_name\(\)\.unwrap", "imports (not modelled)"),
        (r"serde_json::to_string|to_writer", "serialisation of owned data"),
        (r"ninja_cmd\.build|NinjaCmd", "derive_builder with all required fields set"),
        (r"lines\(\)|BufRead|compile_commands", "compile_commands generation (not modelled)"),
    ]
    for pat, cls in rules:
        if re.search(pat, line): return cls
    return "UNREVIEWED"

if __name__ == "__main__":
    lines = scan()
    inv = [{"line": l, "class": classify(l)} for l in lines]
    json.dump(inv, open(sys.argv[1], "w"), indent=1)
    print(len(inv), sum(1 for x in inv if x["class"] == "UNREVIEWED"))
    for x in inv:
        if x["class"] == "UNREVIEWED": print("  ", x["line"])
