"""What a task's shell sees: laze runs every command of a task as `sh -c <command>` with the task's
`export:` entries in the environment. A logging `sh` in front of PATH records the command string and
the environment of each invocation and then runs the real /bin/sh. The recorded command strings and
exported values are compared with the model's evaluated task (Task::with_env_eval in the model:
commands, exports and workdir expanded in the build's flattened env plus ${out})."""
import os, shutil, subprocess, tempfile
from concurrent.futures import ThreadPoolExecutor
from . import core, e2e, proj

FAKE_SH = """#!/bin/sh
# logging sh: record `-c <command>` and the environment, then run the real shell
if [ "$1" = "-c" ] && [ -n "$LAZE_VERIF_SH_LOG" ]; then
  { printf 'CMD\\037%s\\036' "$2"; printf 'LAZE_VERIF_CWD=%s\\0' "$(pwd -P)"; env -0; printf '\\035'; } >> "$LAZE_VERIF_SH_LOG"
fi
exec /bin/sh "$@"
"""

def run_task(laze, files, cli, builder, app, task):
    """-> dict(rc, invocations=[(cmd, env dict)], stderr)"""
    tmp = tempfile.mkdtemp(prefix=e2e.SCRATCH_PREFIX); root = os.path.join(tmp, "p")
    try:
        proj.render(files, root)
        bindir = os.path.join(tmp, "bin"); os.makedirs(bindir)
        for name, text in (("ninja", e2e.FAKE_NINJA), ("sh", FAKE_SH)):
            p = os.path.join(bindir, name); open(p, "w").write(text); os.chmod(p, 0o755)
        log = os.path.join(tmp, "sh.log")
        env = e2e.clean_env(tmp)
        env.update(PATH=bindir + ":" + env.get("PATH", ""), LAZE_VERIF_NINJA_LOG=os.path.join(tmp, "ninja.log"), LAZE_VERIF_NINJA_RC="0",
                   LAZE_VERIF_SH_LOG=log)
        c = {k: v for k, v in cli.items() if k in ("select", "disable", "define")}
        args = [laze, "-C", root, "build", "-g", "-b", builder, "-a", app] + proj.argv(c) + [task]
        try:
            p = subprocess.run(args, env=env, capture_output=True, timeout=60)
            rc, se = p.returncode, p.stderr.decode("utf-8", "replace")
        except subprocess.TimeoutExpired:
            rc, se = "timeout", ""
        inv = []
        if os.path.exists(log):
            for rec in open(log, "rb").read().split(b"\x1d"):
                if not rec.startswith(b"CMD\x1f"): continue
                cmd, _, envblob = rec[4:].partition(b"\x1e")
                ev = {}
                for kv in envblob.split(b"\0"):
                    k, _, v = kv.partition(b"=")
                    if k: ev[k.decode("utf-8", "replace")] = v.decode("utf-8", "replace")
                inv.append((cmd.decode("utf-8", "replace"), ev))
        return dict(rc=rc, invocations=inv, stderr=se, argv=args[1:], root=os.path.realpath(root))
    finally:
        shutil.rmtree(tmp, ignore_errors=True)

def check(laze, cases, results, limit=40):
    """cases: [(files, cli)], results: e2e results (with the model's builds incl. evaluated tasks).
    -> (number of tasks run, list of (text, data)) — a difference between what the task's shell received and the
    model's evaluated task"""
    jobs = []
    for (files, cli), r in zip(cases, results):
        m = r.get("model") or {}
        if m.get("kind") != "ok": continue
        if r["tags"] & {"ninja", "crash", "rc", "configured", "modules", "predicted-panic"}: continue
        seen = set()
        for b in m["builds"]:
            for name, t in sorted(b.get("tasks", {}).items()):
                if t["status"] != "ok" or not t["cmd"]: continue
                key = (name, tuple(t["cmd"]), tuple(t["export"]), t.get("workdir"))
                if key in seen: continue          # the same evaluated task for another build: one is enough
                seen.add(key)
                if any("LAZE_VERIF_TASK_SCRIPT" in c for c in t["cmd"]): continue
                jobs.append((files, cli, b["builder"], b["app"], name, t))
    jobs = jobs[:limit]
    with ThreadPoolExecutor(core.NCPU) as ex:
        outs = list(ex.map(lambda j: run_task(laze, j[0], j[1], j[2], j[3], j[4]), jobs))
    bad = []
    for (files, cli, builder, app, name, t), o in zip(jobs, outs):
        want = [c.replace("$$", "$") for c in t["cmd"]]
        got = [c for c, _ in o["invocations"]]
        # a failing command stops the task: the executed commands are a prefix of the task's
        ok = got == want or (o["rc"] != 0 and got == want[:len(got)] and got)
        data = dict(files=files, cli=cli, builder=builder, app=app, task=name, model_commands=want, shell_received=got,
                    rc=o["rc"], stderr=o["stderr"][-300:], argv=o["argv"])
        if not ok:
            bad.append(("task %s of %s/%s: the shell received %r, the model's evaluated task has %r" % (name, builder, app, got[:3], want[:3]), data))
            continue
        for cmd, ev in o["invocations"]:
            for k, v in t["export"]:
                if ev.get(k) != v:
                    bad.append(("task %s of %s/%s: exported %s=%r in the task's environment, the model has %r" % (name, builder, app, k, ev.get(k), v), data))
                    break
            # the working directory: the task's workdir (relative to the project root, where laze runs), else the project root
            wantdir = os.path.normpath(os.path.join(o["root"], t.get("workdir") or "."))
            if ev.get("LAZE_VERIF_CWD") is not None and os.path.normpath(ev["LAZE_VERIF_CWD"]) != wantdir:
                bad.append(("task %s of %s/%s: runs in %r, the model's evaluated task has workdir %r" % (name, builder, app, ev.get("LAZE_VERIF_CWD"), t.get("workdir")), data))
                break
    return len(jobs), bad
