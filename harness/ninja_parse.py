"""Parser for the ninja files laze writes (the subset its printers emit)."""
import re

def parse(text):
    """-> dict(header=[lines], rules=[dict(name, vars)], builds=[dict(outs, rule, inputs, deps, always, vars)], order=[('rule'|'build', idx)])"""
    lines = text.split("\n")
    i = 0
    res = dict(header=[], rules=[], builds=[], order=[])
    n = len(lines)
    while i < n:
        ln = lines[i]
        if ln.startswith("rule "):
            r = dict(name=ln[5:], vars={})
            i += 1
            while i < n and lines[i].startswith("  "):
                k, _, v = lines[i][2:].partition(" = ")
                r["vars"][k] = v
                i += 1
            res["order"].append(("rule", len(res["rules"])))
            res["rules"].append(r)
        elif ln.startswith("build ") or ln.startswith("build:"):
            # logical line with `$\n    ` continuations
            logical = ln
            while logical.endswith("$") and i + 1 < n:
                i += 1
                logical = logical[:-1] + lines[i].lstrip()
            i += 1
            outs, rest = lex_paths(logical[5:], stop_at_colon=True)
            outs = [o for o in outs if o != "|"]          # explicit and implicit outputs alike are produced by the statement
            toks, _ = lex_paths(rest, stop_at_colon=False)
            rule = toks[0] if toks else ""
            inputs, deps, always = [], [], False
            cur = inputs
            for t in toks[1:]:
                if t == "|": cur = deps; continue
                cur.append(t)
            if deps and deps[-1] == "ALWAYS" and rule != "phony":
                pass
            b = dict(outs=outs, rule=rule, inputs=inputs, deps=deps, vars={})
            while i < n and lines[i].startswith("  "):
                k, _, v = lines[i][2:].partition(" = ")
                b["vars"][k] = v
                i += 1
            res["order"].append(("build", len(res["builds"])))
            res["builds"].append(b)
        else:
            if ln.strip():
                res["header"].append(ln)
            i += 1
    return res

def lex_paths(s, stop_at_colon):
    """ninja's path lexing: tokens end at blanks (and at the first unescaped colon when reading outputs);
    `$ ` is a blank, `$:` a colon, `$$` a dollar inside a token. -> (tokens, rest after the colon)"""
    toks, cur, i, n = [], None, 0, len(s)
    while i < n:
        c = s[i]
        if c == "$" and i + 1 < n and s[i + 1] in " :$":
            cur = (cur or "") + s[i + 1]; i += 2; continue
        if c in " \t":
            if cur is not None: toks.append(cur); cur = None
            i += 1; continue
        if c == "|":
            # a pipe always is a token of its own for ninja (there is no escape for it): `a|b` is a, |, b
            if cur is not None: toks.append(cur); cur = None
            toks.append("|"); i += 1; continue
        if c == ":" and stop_at_colon:
            if cur is not None: toks.append(cur)
            return toks, s[i + 1:]
        cur = (cur or "") + c; i += 1
    if cur is not None: toks.append(cur)
    return toks, ""

def base_name(rule_name):
    m = re.match(r"^(.*)_(\d+)$", rule_name)
    return m.group(1) if m else rule_name

def commands(parsed, strip_modules=True):
    out = []
    for r in parsed["rules"]:
        c = r["vars"].get("command", "")
        if strip_modules and " # " in c:
            c = c.split(" # ", 1)[0]
        out.append((base_name(r["name"]), c))
    return sorted(set(out))
